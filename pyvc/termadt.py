"""ProbLog Term trees as a recursive SMT datatype (assumption A-term)."""
import z3
from .types import *
from .values import *
from .state import *

_TERM = None


def term_sort():
    raise Unsupported("Term ADT not built yet")


class TermMixin(object):
    pass
