"""ProbLog term trees as a recursive SMT datatype (assumption A-term).

    Term = VNone | VInt(i) | VNamed(name)            -- None / int / Var objects (variables)
         | CInt(i) | CFloat(x) | CStr(s)             -- Constant objects by payload type
         | Struct(scls, functor, args: List[Term])   -- Term / Not / And / Or / Clause objects
    List[Term] = mk(len, Array Int Term)

A-term: Term objects are immutable trees; `functor`, `args`, `arity`, `is_var()`, `is_constant()`,
`is_float()`, `is_integer()`, `is_string()`, `isinstance(t, Var|Constant|Term|Not)`, `type(t) == int`,
`t is None` read the constructor (these one-line methods of problog.logic are what the abstraction
replaces; it is listed in the trusted base).  Code that needs the kind of a term forks on the
constructor (decide), so every path knows the static Python type of `t.functor`.
"""
import z3
from .types import *
from . import types as T
from .values import *
from .state import *

_TERM = None
_TLIST = None

SCLS = {"Term": 0, "Not": 1, "And": 2, "Or": 3, "Clause": 4, "AnnotatedDisjunction": 5, "AggTerm": 6}
KINDS = ["VNone", "VInt", "VNamed", "CInt", "CFloat", "CStr", "Struct"]


def _build():
    global _TERM, _TLIST
    if _TERM is not None:
        return
    src = """
(declare-datatypes ((Term 0) (List_Term 0)) (
  ((VNone) (VInt (vi Int)) (VNamed (vname String)) (CInt (ci Int)) (CFloat (cf Real)) (CStr (cs String))
   (Struct (scls Int) (functor String) (args List_Term)))
  ((mk_List_Term (len_List_Term Int) (arr_List_Term (Array Int Term))))
))
(declare-const probe!term Term)
(assert (= probe!term probe!term))
"""
    fs = z3.parse_smt2_string(src)
    _TERM = fs[0].arg(0).sort()
    _TLIST = _TERM.constructor(6).domain(2)
    T._cache["Term"] = _TERM
    T._cache["List[Term]"] = _TLIST


def term_sort():
    _build()
    return _TERM


def tlist_sort():
    _build()
    return _TLIST


def K(name):
    """(constructor, recognizer, accessors) of a Term constructor."""
    s = term_sort()
    i = KINDS.index(name)
    return s.constructor(i), s.recognizer(i), [s.accessor(i, j) for j in range(s.constructor(i).arity())]


def is_kind(t, name):
    return K(name)[1](t)


def acc(t, name, j=0):
    return K(name)[2][j](t)


TLIST = TList(TERM)


def concretize_term(m, t):
    e = m.eval(t, model_completion=True)
    for i, k in enumerate(KINDS):
        if z3.is_true(m.eval(term_sort().recognizer(i)(e), model_completion=True)):
            if k == "VNone":
                return {"term": ["none"]}
            if k == "VInt":
                return {"term": ["vint", int(str(m.eval(acc(e, k), model_completion=True)))]}
            if k in ("VNamed", "CStr"):
                v = m.eval(acc(e, k), model_completion=True)
                return {"term": ["var" if k == "VNamed" else "cstr", v.as_string() if z3.is_string_value(v) else str(v)]}
            if k == "CInt":
                return {"term": ["cint", int(str(m.eval(acc(e, k), model_completion=True)))]}
            if k == "CFloat":
                r = m.eval(acc(e, k), model_completion=True)
                try:
                    return {"term": ["cfloat", "%s/%s" % (r.numerator_as_long(), r.denominator_as_long())]}
                except Exception:
                    return {"term": ["cfloat", str(r)]}
            sc = int(str(m.eval(acc(e, k, 0), model_completion=True)))
            f = m.eval(acc(e, k, 1), model_completion=True)
            al = acc(e, k, 2)
            n = int(str(m.eval(tlist_sort().accessor(0, 0)(al), model_completion=True)))
            if n > 8 or n < 0:
                return {"unknown": "term with %d args" % n}
            arr = tlist_sort().accessor(0, 1)(al)
            args = [concretize_term(m, z3.Select(arr, j)) for j in range(n)]
            return {"term": ["struct", sc, f.as_string() if z3.is_string_value(f) else str(f), args]}
    return {"unknown": "term"}


def _sf(ty, f):
    def call(ex, args, node):
        return Val(ty, f(args[0].t))
    return call


def _tk(ex, args, node):
    t = args[0].t
    e = z3.IntVal(len(KINDS) - 1)
    for i in reversed(range(len(KINDS) - 1)):
        e = z3.If(term_sort().recognizer(i)(t), z3.IntVal(i), e)
    return vint(e)


def _t_arity(ex, args, node):
    t = args[0].t
    return vint(z3.If(is_kind(t, "Struct"), tlist_sort().accessor(0, 0)(acc(t, "Struct", 2)), z3.IntVal(0)))


# total accessors for specifications (no constructor split): tk(t) is the constructor index
# 0 VNone 1 VInt 2 VNamed 3 CInt 4 CFloat 5 CStr 6 Struct
SPEC_FUNCS = {
    "tk": _tk,
    "t_vi": _sf(INT, lambda t: acc(t, "VInt")),
    "t_vname": _sf(STR, lambda t: acc(t, "VNamed")),
    "t_ci": _sf(INT, lambda t: acc(t, "CInt")),
    "t_cf": _sf(FLOAT, lambda t: float_sort().Fin(acc(t, "CFloat"))),
    "t_cs": _sf(STR, lambda t: acc(t, "CStr")),
    "t_cls": _sf(INT, lambda t: acc(t, "Struct", 0)),
    "t_functor": _sf(STR, lambda t: acc(t, "Struct", 1)),
    "t_args": _sf(TList(TERM), lambda t: acc(t, "Struct", 2)),
    "t_arity": _t_arity,
    "round15": _sf(FLOAT, lambda x: float_sort().Fin(z3.Function("round15", z3.RealSort(), z3.RealSort())(
        float_sort().r(x)))),
}


class TermMixin(object):
    # ------------------------------------------------------------ kind split
    def term_kind(self, v):
        """Fork on the constructor of a Term value; afterwards the path condition fixes it."""
        if self.spec_mode:
            raise Unsupported("constructor split in a specification (use kind()/t_*() accessors)")
        cache = self.ctx.counter.setdefault("__kinds", {})
        key = v.t.get_id()
        if key in cache:
            return cache[key][1]
        kind = "Struct"
        for k in KINDS[:-1]:
            if self.ctx.decide(is_kind(v.t, k)):
                kind = k
                break
        else:
            self.ctx.assume(is_kind(v.t, "Struct"))
        cache[key] = (v.t, kind)      # keeps the term alive, so the id is not reused
        return kind

    def term_args(self, v):
        l = Val(TLIST, acc(v.t, "Struct", 2))
        for c in type_invariant(l):
            self.ctx.assume(c)
        return l

    def term_attr(self, obj, attr, node):
        if attr in ("location", "probability", "op_priority", "op_spec"):
            return VNONE
        if attr in ("is_var", "is_constant", "is_float", "is_integer", "is_string", "is_ground", "is_negated",
                    "compute_value", "__eq__", "__hash__", "with_args", "apply", "is_scope_term"):
            return Val(TFun(), None, ("termmeth", obj, attr))
        k = self.term_kind(obj)
        if k in ("VNone", "VInt"):
            exc = "AttributeError"
            self.safety(z3.BoolVal(False), exc, "attr-%s-of-%s" % (attr, k), node)
            raise PathEnd()
        if attr in ("functor", "name", "value"):
            if k == "Struct":
                if attr == "value":
                    args = self.term_args(obj)
                    neg = z3.And(acc(obj.t, k, 1) == z3.StringVal("'-'"), list_len(args) == 1)
                    if self.ctx.decide(neg):
                        inner = Val(TERM, z3.Select(list_arr(args), 0))
                        ik = self.term_kind(inner)
                        self.assumptions.add("the value of '-'(N) is -N for a numeric constant N (contract of "
                                             "Term.value/compute_function on unary minus, verified under C16)")
                        if ik == "CInt":
                            return vint(-acc(inner.t, ik))
                        if ik == "CFloat":
                            return Val(FLOAT, ffin(-acc(inner.t, ik)))
                    raise Unsupported("Term.value of a compound (compute_function)")
                return vstr(acc(obj.t, k, 1))
            if k == "VNamed":
                if attr == "value":
                    self.safety(z3.BoolVal(False), "InstantiationError", "value-of-var", node)
                    raise PathEnd()
                return vstr(acc(obj.t, k))
            if k == "CInt":
                return vint(acc(obj.t, k))
            if k == "CFloat":
                return Val(FLOAT, ffin(acc(obj.t, k)))
            if k == "CStr":
                return vstr(acc(obj.t, k))
        if attr == "args":
            if k == "Struct":
                return self.term_args(obj)
            return mk_list(TLIST, z3.IntVal(0), list_arr(Val(TLIST, z3.Const("noargs", tlist_sort()))))
        if attr == "arity":
            if k == "Struct":
                return vint(list_len(self.term_args(obj)))
            return vint(0)
        if attr == "signature":
            raise Unsupported("Term.signature")
        raise Unsupported("Term attribute %s" % attr)

    def term_method(self, obj, meth, args, node):
        if meth == "is_ground":
            f = z3.Function("t_is_ground", term_sort(), z3.BoolSort())
            return vbool(f(obj.t))
        k = self.term_kind(obj)
        if k in ("VNone", "VInt"):
            self.safety(z3.BoolVal(False), "AttributeError", "method-%s-of-%s" % (meth, k), node)
            raise PathEnd()
        if meth == "is_var":
            return vbool(k == "VNamed")
        if meth == "is_constant":
            return vbool(k in ("CInt", "CFloat", "CStr"))
        if meth in ("is_float", "is_integer", "is_string"):
            if k == "Struct" or k == "VNamed":
                self.safety(z3.BoolVal(False), "AttributeError", "method-%s-of-%s" % (meth, k), node)
                raise PathEnd()
            return vbool({"is_float": "CFloat", "is_integer": "CInt", "is_string": "CStr"}[meth] == k)
        if meth == "is_negated":
            if k == "Struct":
                return vbool(acc(obj.t, k, 0) == SCLS["Not"])
            return vbool(False)
        raise Unsupported("Term method %s" % meth)

    def term_isinstance(self, v, n, node):
        if self.spec_mode:
            t = v.t
            return {"Var": is_kind(t, "VNamed"),
                    "Constant": z3.Or(is_kind(t, "CInt"), is_kind(t, "CFloat"), is_kind(t, "CStr")),
                    "Term": z3.Not(z3.Or(is_kind(t, "VNone"), is_kind(t, "VInt"))),
                    "int": is_kind(t, "VInt"),
                    "Not": z3.And(is_kind(t, "Struct"), acc(t, "Struct", 0) == SCLS["Not"])}.get(n, z3.BoolVal(False))
        k = self.term_kind(v)
        if n == "Term":
            return z3.BoolVal(k not in ("VNone", "VInt"))
        if n == "Var":
            return z3.BoolVal(k == "VNamed")
        if n == "Constant":
            return z3.BoolVal(k in ("CInt", "CFloat", "CStr"))
        if n == "int":
            return z3.BoolVal(k == "VInt")
        if n in SCLS and n != "Term":
            if k != "Struct":
                return z3.BoolVal(False)
            return acc(v.t, "Struct", 0) == SCLS[n]
        if n in ("Object",):
            return z3.BoolVal(False)
        return z3.BoolVal(False)

    def term_as_python_scalar(self, v, node, what):
        """A Term-typed value that is really a Python int (numbered variable)."""
        k = self.term_kind(v)
        if k == "VInt":
            return vint(acc(v.t, k))
        self.safety(z3.BoolVal(False), "TypeError", "%s-on-%s" % (what, k), node)
        raise PathEnd()

    def order_other(self, sym, a, b, node):
        if a.ty == TERM or b.ty == TERM:
            if a.ty == TERM:
                a = self.term_as_python_scalar(a, node, "ordering")
            if b.ty == TERM:
                b = self.term_as_python_scalar(b, node, "ordering")
            if a.ty != b.ty and not (a.ty in (INT, FLOAT) and b.ty in (INT, FLOAT)):
                self.safety(z3.BoolVal(False), "TypeError", "ordering-%s-%s" % (a.ty, b.ty), node)
                raise PathEnd()
            return self.order(sym, a, b, node)
        if (a.ty == STR) != (b.ty == STR):
            self.safety(z3.BoolVal(False), "TypeError", "ordering-%s-%s" % (a.ty, b.ty), node)
            raise PathEnd()
        raise Unsupported("ordering on %s, %s" % (a.ty, b.ty))

    def as_term(self, v):
        """A Python value used as a term argument: Term objects, ints (numbered variables), None."""
        if v.ty == TERM:
            return v.t
        if v.ty == INT:
            return K("VInt")[0](v.t)
        if v.ty == NONE:
            return K("VNone")[0]()
        raise Unsupported("%s as a term argument" % v.ty)

    def term_construct(self, clsname, args, kwargs, node):
        """Term(...), Constant(...), Var(...), Not(...) of problog.logic (A-term: the constructors build
        the tree; Constant rounds float payloads to FLOAT_PRECISION = 15 decimals)."""
        if clsname == "Constant":
            v = args[0]
            if v.ty == INT:
                return Val(TERM, K("CInt")[0](v.t))
            if v.ty == STR:
                return Val(TERM, K("CStr")[0](v.t))
            if v.ty == FLOAT:
                X = XR()
                if not self.spec_mode:
                    self.ctx.oblige(X.is_Fin(v.t), "%s/safety:Constant-of-non-finite#%d" % (self.ctx.fnname, self.site(node)),
                                    "safety", getattr(node, "lineno", 0))
                r15 = z3.Function("round15", z3.RealSort(), z3.RealSort())
                self.assumptions.add("Constant(float) stores round(value, 15) (uninterpreted round15)")
                return Val(TERM, K("CFloat")[0](r15(X.r(v.t))))
            raise Unsupported("Constant(%s)" % v.ty)
        if clsname == "Var":
            return Val(TERM, K("VNamed")[0](args[0].t))
        if clsname in ("Term", "Not"):
            f = args[0]
            if f.ty != STR:
                raise Unsupported("Term with a non-string functor")
            items = [self.as_term(a) for a in args[1:]]
            arr = z3.K(z3.IntSort(), K("VNone")[0]())
            for i, it in enumerate(items):
                arr = z3.Store(arr, i, it)
            lst = tlist_sort().constructor(0)(z3.IntVal(len(items)), arr)
            return Val(TERM, K("Struct")[0](z3.IntVal(SCLS[clsname]), f.t, lst))
        raise Unsupported("construction of %s" % clsname)

    def term_identical_none(self, v):
        return is_kind(v.t, "VNone")

    def term_to_float(self, v, node):
        """float(term): Constant payloads; '-'(number) through compute_function (assumed contract, see C16)."""
        k = self.term_kind(v)
        if k == "CInt":
            i = acc(v.t, k)
            if self.float_rounding:
                lim = z3.IntVal(2 ** 1024)
                self.safety(z3.And(i < lim, i > -lim), "OverflowError", "float-of-int", node)
            return to_float(vint(i), exact=not self.float_rounding)
        if k == "CFloat":
            return Val(FLOAT, ffin(acc(v.t, k)))
        if k == "Struct":
            args = self.term_args(v)
            neg = z3.And(acc(v.t, k, 1) == z3.StringVal("'-'"), list_len(args) == 1)
            if self.ctx.decide(neg):
                inner = Val(TERM, z3.Select(list_arr(args), 0))
                self.assumptions.add("float('-'(N)) = -float(N) for a numeric constant N (contract of "
                                     "Term.__float__/compute_function on negative literals, verified under C16)")
                f = self.term_to_float(inner, node)
                return Val(FLOAT, f_arith("-", ffin(0), f.t, lambda c: None))
        raise Unsupported("float() of a %s term" % k)

    def term_str(self, v, node):
        k = self.term_kind(v)
        if k == "Struct":
            n = list_len(self.term_args(v))
            if self.ctx.decide(n == 0):
                return vstr(acc(v.t, k, 1))
            return self.ctx.fresh("termrepr", STR)
        if k in ("VNamed", "CStr"):
            return vstr(acc(v.t, k))
        if k == "CInt":
            return self.bi_str([vint(acc(v.t, k))], {}, node)
        return self.ctx.fresh("termrepr", STR)
