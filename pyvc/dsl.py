"""Contract notation.  A contract module under /verif/contracts builds one `Spec`.

Expressions are Python source strings, parsed with `ast` and translated by the same translator
as the repository code, plus: old(e), result, forall(lambda i: ...), exists(lambda i: ...),
implies(p, q), iff(p, q), and the names in `defs`.
"""
import ast
import inspect
import textwrap


class ClassSpec(object):
    def __init__(self, qual, fields=None, ghost=None, defs=None, invariant=None, record=False,
                 consts=None):
        self.qual = qual                      # "problog.util:UHeap"  (or "rec:Cell" for a record)
        self.module, self.name = qual.split(":")
        self.fields = dict(fields or {})      # name -> type expression (str)
        self.ghost = dict(ghost or {})
        self.defs = dict(defs or {})          # name -> expression source (may be a lambda)
        self.invariant = list(invariant or [])
        self.record = record
        self.consts = dict(consts or {})


class LoopSpec(object):
    def __init__(self, invariant=(), decreases=None, index="_k", modifies=(), ghost=None, hints=()):
        self.invariant = list(invariant)
        self.decreases = decreases
        self.index = index
        self.modifies = list(modifies)       # extra heap fields "Class.field" modified in the body
        self.ghost = dict(ghost or {})        # ghost local -> (init expr, update expr at end of body)
        self.hints = list(hints)


class FnSpec(object):
    def __init__(self, qual, types=None, returns=None, requires=(), ensures=(), raises=None,
                 modifies=(), loops=None, inline=False, decreases=None, ghost_exit=None, at=None,
                 abstract=False, pure=False, yields=None, defs=None, lemmas=(), alloc_as=None,
                 mutates=(), use=(), trusted=False, note=None, exc_post=None, dead_ok=(), native_only=False,
                 strict_return=False):
        self.strict_return = strict_return     # the Python type of the result must be exactly `returns`
        self.native_only = native_only         # contract evaluated at run time only (bounded stand-in)
        self.table = None                      # (dict name, key): the function is a lambda stored in a dict literal
        self.dead_ok = list(dead_ok)           # statements allowed to be unreachable under the precondition
        self.qual = qual
        self.module, self.path = qual.split(":")
        self.types = dict(types or {})
        self.returns = returns
        self.requires = list(requires)
        self.ensures = list(ensures)
        self.raises = dict(raises or {})       # exception class name -> condition on the pre-state
        self.modifies = list(modifies)         # "self.f" (this object only) or "Class.f" (any object)
        self.loops = dict(loops or {})         # loop ordinal -> LoopSpec
        self.inline = inline
        self.decreases = decreases
        self.ghost_exit = dict(ghost_exit or {})
        self.at = list(at or [])               # [(snippet, "assert expr")] ghost assertions after a statement
        self.abstract = abstract
        self.pure = pure
        self.yields = yields
        self.defs = dict(defs or {})
        self.alloc_as = alloc_as               # list literals of this arity allocate records: {3: "Cell"}
        self.mutates = list(mutates)           # parameters of container type the body may mutate
        self.use = list(use)
        self.trusted = trusted                 # contract assumed, body not verified (listed as assumption)
        self.note = note

    @property
    def clsname(self):
        return self.path.split(".")[0] if "." in self.path else None

    @property
    def fname(self):
        return self.path.split(".")[-1]


class Lemma(object):
    def __init__(self, name, src, module_hint, types):
        self.name, self.src, self.module_hint, self.types = name, src, module_hint, types


class Spec(object):
    def __init__(self, pid, title=""):
        self.pid, self.title = pid, title
        self.classes = {}
        self.fns = {}
        self.lemmas = []
        self.aliases = {}
        self.assumptions = []
        self.remainder = []
        self.spec_axioms = []
        self.includes = []

    def alias(self, name, tyexpr):
        self.aliases[name] = tyexpr

    def cls(self, qual, **kw):
        c = ClassSpec(qual, **kw)
        self.classes[c.name] = c
        return c

    def rec(self, name, **fields):
        c = ClassSpec("rec:" + name, fields=fields, record=True)
        self.classes[name] = c
        return c

    def fn(self, qual, **kw):
        f = FnSpec(qual, **kw)
        self.fns[qual] = f
        return f

    def table_fn(self, module, table, key, **kw):
        """Contract for a lambda stored under `key` in the module-level dict literal `table`."""
        label = "%s[%s]" % (table, ",".join(str(x) for x in key))
        f = FnSpec("%s:%s" % (module, label), **kw)
        f.table = (table, key)
        self.fns[f.qual] = f
        return f

    def lemma(self, func, module="problog.util"):
        """Register a harness function (defined in the contract module) as a lemma.
        Parameter annotations are type expressions (strings)."""
        src = textwrap.dedent(inspect.getsource(func))
        tree = ast.parse(src).body[0]
        tree.decorator_list = []
        types = {}
        for a in tree.args.args:
            if a.annotation is not None:
                types[a.arg] = a.annotation.value if isinstance(a.annotation, ast.Constant) else ast.unparse(a.annotation)
        self.lemmas.append(Lemma(func.__name__, tree, module, types))
        return func

    def recfun(self, name, params, returns, body):
        """Recursive spec function, e.g. recfun("sumf", [("ws","List[Float]"),("k","Int")], "Float",
        "0.0 if k <= 0 else sumf(ws, k-1) + ws[k-1]")."""
        if not hasattr(self, "recfuns"):
            self.recfuns = {}
        self.recfuns[name] = (params, returns, body)

    def lemma_fn(self, func, cls=None, module="problog.util", **kw):
        """A ghost lemma with a contract, proved by symbolic execution of its (recursive) body:
        recursion uses the lemma's own contract, `decreases` gives well-foundedness.  Functions
        listing it under `use=` may assume `forall params: requires => ensures`."""
        src = textwrap.dedent(inspect.getsource(func))
        tree = ast.parse(src).body[0]
        tree.decorator_list = []
        types = dict(kw.pop("types", {}))
        for a in tree.args.args:
            if a.annotation is not None:
                types.setdefault(a.arg, a.annotation.value if isinstance(a.annotation, ast.Constant)
                                 else ast.unparse(a.annotation))
        f = FnSpec("%s:%s%s" % (module, (cls + ".") if cls else "", func.__name__), types=types, **kw)
        f.src = tree
        f.is_lemma_fn = True
        if not hasattr(self, "lemma_fns"):
            self.lemma_fns = {}
        self.lemma_fns[func.__name__] = f
        self.fns["lemmafn:" + func.__name__] = f
        return func

    def assume(self, text):
        self.assumptions.append(text)

    def unverified(self, text):
        self.remainder.append(text)

    def include(self, other):
        """Use the contracts of another Spec (modular calls) without re-verifying them here."""
        self.includes.append(other)
        for k, v in other.classes.items():
            self.classes.setdefault(k, v)
        for k, v in other.aliases.items():
            self.aliases.setdefault(k, v)


def loop(**kw):
    return LoopSpec(**kw)
