"""Spec types of pyvc and their SMT sorts.

Every symbolic value is a pair (type, z3 term).  Types are Python objects;
`sort(ty)` gives the z3 sort.  Composite sorts are created on demand and cached
by a canonical name so that identical types share a sort.
"""
import z3

Ref = z3.DeclareSort("Ref")
NULLREF = z3.Const("null", Ref)

_cache = {}


class Ty(object):
    name = "?"

    def __repr__(self):
        return self.name

    def __eq__(self, other):
        return isinstance(other, Ty) and self.name == other.name

    def __ne__(self, other):
        return not self == other

    def __hash__(self):
        return hash(self.name)


class TInt(Ty):
    name = "Int"


class TBool(Ty):
    name = "Bool"


class TFloat(Ty):
    """Extended real: Fin(r) | NInf | PInf  (assumption A-float: no rounding, no NaN)."""
    name = "Float"


class TStr(Ty):
    name = "Str"


class TNone(Ty):
    name = "None"


class TAbs(Ty):
    """Abstract (uninterpreted) sort, optionally totally ordered."""

    def __init__(self, n, ordered=False):
        self.name = n
        self.ordered = ordered


class TTuple(Ty):
    def __init__(self, items):
        self.items = list(items)
        self.name = "Tuple[" + ",".join(t.name for t in self.items) + "]"


class TOpt(Ty):
    def __init__(self, t):
        self.t = t
        self.name = "Opt[" + t.name + "]"


class TList(Ty):
    def __init__(self, t):
        self.t = t
        self.name = "List[" + t.name + "]"


class TDict(Ty):
    def __init__(self, k, v):
        self.k, self.v = k, v
        self.name = "Dict[" + k.name + "," + v.name + "]"


class TSet(Ty):
    def __init__(self, k):
        self.k = k
        self.name = "Set[" + k.name + "]"


class TRef(Ty):
    """Reference to an object of a class (or record) under contract."""

    def __init__(self, cls):
        self.cls = cls
        self.name = "Ref[" + cls + "]"


class TTerm(Ty):
    """ProbLog term tree (assumption A-term): see pyvc/termadt.py."""
    name = "Term"


class TFun(Ty):
    """A Python-level callable known to the executor (never stored in SMT)."""
    name = "Fun"


class TMethodRef(Ty):
    """A bound method used as a value (e.g. `self.one` without a call)."""
    name = "MethodRef"


class TType(Ty):
    name = "Type"


INT, BOOL, FLOAT, STR, NONE, TERM = TInt(), TBool(), TFloat(), TStr(), TNone(), TTerm()


def _sanitize(n):
    return n.replace("[", "_").replace("]", "").replace(",", "_")


FloatSort = None


def float_sort():
    global FloatSort
    if FloatSort is None:
        d = z3.Datatype("XReal")
        d.declare("Fin", ("r", z3.RealSort()))
        d.declare("NInf")
        d.declare("PInf")
        FloatSort = d.create()
    return FloatSort


MethodRefSort = z3.DeclareSort("MethodRef")


def sort(ty):
    n = ty.name
    if n in _cache:
        return _cache[n]
    if isinstance(ty, TInt):
        s = z3.IntSort()
    elif isinstance(ty, TBool):
        s = z3.BoolSort()
    elif isinstance(ty, TFloat):
        s = float_sort()
    elif isinstance(ty, TStr):
        s = z3.StringSort()
    elif isinstance(ty, TNone):
        d = z3.Datatype("NoneT")
        d.declare("None_")
        s = d.create()
    elif isinstance(ty, TAbs):
        s = z3.DeclareSort(ty.name)
    elif isinstance(ty, TRef):
        s = Ref
    elif isinstance(ty, TMethodRef):
        s = MethodRefSort
    elif isinstance(ty, TTerm):
        from . import termadt
        s = termadt.term_sort()
    elif isinstance(ty, TTuple):
        d = z3.Datatype(_sanitize(n))
        d.declare("mk_" + _sanitize(n), *[("f%d_%s" % (i, _sanitize(n)), sort(t)) for i, t in enumerate(ty.items)])
        s = d.create()
    elif isinstance(ty, TOpt):
        d = z3.Datatype(_sanitize(n))
        d.declare("none_" + _sanitize(n))
        d.declare("some_" + _sanitize(n), ("val_" + _sanitize(n), sort(ty.t)))
        s = d.create()
    elif isinstance(ty, TList) and isinstance(ty.t, TTerm):
        from . import termadt
        termadt._build()          # List[Term] is declared together with Term (mutual recursion)
        return _cache[n]
    elif isinstance(ty, TList):
        d = z3.Datatype(_sanitize(n))
        d.declare("mk_" + _sanitize(n), ("len_" + _sanitize(n), z3.IntSort()),
                  ("arr_" + _sanitize(n), z3.ArraySort(z3.IntSort(), sort(ty.t))))
        s = d.create()
    elif isinstance(ty, TDict):
        d = z3.Datatype(_sanitize(n))
        d.declare("mk_" + _sanitize(n), ("size_" + _sanitize(n), z3.IntSort()),
                  ("dom_" + _sanitize(n), z3.ArraySort(sort(ty.k), z3.BoolSort())),
                  ("map_" + _sanitize(n), z3.ArraySort(sort(ty.k), sort(ty.v))))
        s = d.create()
    elif isinstance(ty, TSet):
        s = z3.ArraySort(sort(ty.k), z3.BoolSort())
    else:
        raise TypeError("no sort for %r" % (ty,))
    _cache[n] = s
    return s


def parse_type(src, env=None):
    """Parse a type expression such as 'List[Tuple[Key,Int]]'.  `env` maps names to Ty."""
    import ast
    env = env or {}
    node = ast.parse(src, mode="eval").body
    return _ptype(node, env)


def _ptype(node, env):
    import ast
    if isinstance(node, ast.Name):
        base = {"Int": INT, "Bool": BOOL, "Float": FLOAT, "Str": STR, "None": NONE, "Term": TERM,
                "MethodRef": TMethodRef()}
        if node.id in env:
            return env[node.id]
        if node.id in base:
            return base[node.id]
        raise TypeError("unknown type name %s" % node.id)
    if isinstance(node, ast.Constant) and node.value is None:
        return NONE
    if isinstance(node, ast.Subscript):
        head = node.value.id
        sl = node.slice
        args = sl.elts if isinstance(sl, ast.Tuple) else [sl]
        if head == "Ref":
            a = args[0]
            return TRef(a.id if isinstance(a, ast.Name) else a.value)
        if head == "Abs":
            a = args[0]
            return TAbs(a.id if isinstance(a, ast.Name) else a.value)
        if head == "Ord":
            a = args[0]
            return TAbs(a.id if isinstance(a, ast.Name) else a.value, ordered=True)
        targs = [_ptype(a, env) for a in args]
        if head == "List":
            return TList(targs[0])
        if head == "Opt":
            return TOpt(targs[0])
        if head == "Tuple":
            return TTuple(targs)
        if head == "Dict":
            return TDict(targs[0], targs[1])
        if head == "Set":
            return TSet(targs[0])
    raise TypeError("bad type expression")
