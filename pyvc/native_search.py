"""Bounded native search: evaluate a function's contract at run time on generated inputs.

Runs under the repository's interpreter.  Used (a) as the bounded stand-in ([B]) for functions or
clauses the verifier cannot reach, (b) to look for a concrete failing input when an obligation is
refuted or undecided, (c) as a run-time audit of the contracts.  Never counted as proof.

Request (JSON on stdin): {property, quals: [...], seed, budget}
Contract module hooks:  native_cases(qual, rng) -> iterator of JSON-able recipes
                        native_build(qual, recipe) -> dict of keyword arguments for the function
Reply (last line, JSON): {qual: {evaluations, nontrivial, skipped, failures: [{recipe, text}]}}
"""
import importlib
import json
import random
import sys
import time
import traceback

from pyvc import native as N
from pyvc import native_fn


def search(mod, qual, seed, budget, max_fail=3, time_limit=60.0):
    fs = native_fn.find_spec(mod, qual)
    out = dict(evaluations=0, nontrivial=0, skipped=0, failures=[], samples=[])
    if fs is None or not hasattr(mod, "native_cases"):
        out["note"] = "no generator"
        return out
    func = native_fn.resolve(fs)
    rng = random.Random(seed)
    t0 = time.time()
    seen = set()
    for recipe in mod.native_cases(qual, rng):
        if out["evaluations"] + out["skipped"] >= budget or time.time() - t0 > time_limit:
            break
        key = json.dumps(recipe, sort_keys=True)
        try:
            N.UNIVERSE.clear()
            vals = mod.native_build(qual, recipe)
            sizes = [len(x) for x in vals.values() if isinstance(x, (list, dict, set, tuple, str))]
            for o in vals.values():
                for a in getattr(o, "__dict__", {}).values():
                    if hasattr(a, "__len__"):
                        sizes.append(len(a))
            N.QWINDOW[0] = min(40, max([6] + [s + 3 for s in sizes]))
            ok, text = native_fn.evaluate_contract(mod, fs, func, vals)
        except N.Skip:
            out["skipped"] += 1
            continue
        except Exception:
            out["failures"].append(dict(recipe=recipe, text="harness error: " + traceback.format_exc()[-600:], harness=True))
            if len(out["failures"]) >= max_fail:
                break
            continue
        if ok is None:
            out["skipped"] += 1
            continue
        out["evaluations"] += 1
        if key not in seen:
            seen.add(key)
            out["nontrivial"] += 1
            if len(out["samples"]) < 3:
                out["samples"].append(recipe)
        if not ok:
            out["failures"].append(dict(recipe=recipe, text=text))
            if len(out["failures"]) >= max_fail:
                break
    return out


def main():
    req = json.load(sys.stdin)
    mod = importlib.import_module("contracts." + req["property"])
    for k, v in N.NATIVES.items():
        setattr(mod, k, v)
    res = {}
    for q in req["quals"]:
        try:
            res[q] = search(mod, q, req.get("seed", 0), req.get("budget", 300), time_limit=req.get("time_limit", 60.0))
        except Exception:
            res[q] = dict(evaluations=0, nontrivial=0, skipped=0, failures=[], error=traceback.format_exc()[-800:])
    print(json.dumps(res))


if __name__ == "__main__":
    from pyvc import native_search as _s
    _s.main()
