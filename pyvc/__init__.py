"""pyvc: verification-condition generator for a subset of Python (see /verif/DESIGN.md)."""
