"""Extraction: read the repository's *current* source with `ast` on every run.

Nothing is cached across runs.  The verified text is the repository text; what the
extraction drops is recorded per function in `dropped` (docstrings, comments are not in the
AST at all; logging/print/warn/Timer calls are turned into no-ops by the executor and
reported).
"""
import ast
import hashlib
import os

REPO = os.environ.get("PYVC_REPO", "/repo")

_mods = {}


class ModuleInfo(object):
    def __init__(self, name, path, tree, src):
        self.name, self.path, self.tree, self.src = name, path, tree, src
        self.classes = {}
        self.functions = {}
        self.assigns = {}
        self.imports = {}      # local name -> (module, attr or None)
        for node in tree.body:
            self._top(node)

    def _top(self, node):
        if isinstance(node, ast.ClassDef):
            self.classes[node.name] = node
        elif isinstance(node, (ast.FunctionDef,)):
            self.functions[node.name] = node
        elif isinstance(node, ast.Assign):
            for t in node.targets:
                if isinstance(t, ast.Name):
                    self.assigns[t.id] = node.value
                elif isinstance(t, ast.Tuple) and isinstance(node.value, ast.Tuple):
                    for tt, vv in zip(t.elts, node.value.elts):
                        if isinstance(tt, ast.Name):
                            self.assigns[tt.id] = vv
        elif isinstance(node, ast.ImportFrom):
            base = self.name.rsplit(".", 1)[0] if node.level else ""
            if node.level and node.level > 1:
                for _ in range(node.level - 1):
                    base = base.rsplit(".", 1)[0]
            mod = (base + "." + node.module) if (node.level and node.module) else (node.module or base)
            for a in node.names:
                self.imports[a.asname or a.name] = (mod, a.name)
        elif isinstance(node, ast.Import):
            for a in node.names:
                self.imports[a.asname or a.name] = (a.name, None)
        elif isinstance(node, (ast.If, ast.Try)):
            for sub in node.body:
                self._top(sub)


def module_path(name):
    rel = name.replace(".", "/")
    p = os.path.join(REPO, rel + ".py")
    if os.path.exists(p):
        return p
    p = os.path.join(REPO, rel, "__init__.py")
    if os.path.exists(p):
        return p
    return None


def load_module(name, path=None):
    if name in _mods:
        return _mods[name]
    p = path or module_path(name)
    if p is None:
        return None
    with open(p) as f:
        src = f.read()
    tree = ast.parse(src, filename=p)
    mi = ModuleInfo(name, p, tree, src)
    _mods[name] = mi
    return mi


def reset():
    _mods.clear()


def find_class(modname, clsname, _depth=0):
    """Resolve a class name as seen from module `modname` -> (ModuleInfo, ClassDef) or None."""
    mi = load_module(modname)
    if mi is None or _depth > 6:
        return None
    if clsname in mi.classes:
        return mi, mi.classes[clsname]
    if clsname in mi.imports:
        m, a = mi.imports[clsname]
        if a is not None:
            return find_class(m, a, _depth + 1)
    return None


def class_bases(mi, cdef):
    out = []
    for b in cdef.bases:
        if isinstance(b, ast.Name):
            r = find_class(mi.name, b.id)
            if r:
                out.append(r)
        elif isinstance(b, ast.Attribute):
            # e.g. collections.abc.MutableSet: resolved by the stdlib mix-in table in symexec
            pass
    return out


def mro(modname, clsname):
    """Linearised list [(ModuleInfo, ClassDef)] (single inheritance DFS, sufficient here)."""
    r = find_class(modname, clsname)
    if not r:
        return []
    out, todo, seen = [], [r], set()
    while todo:
        mi, cd = todo.pop(0)
        key = (mi.name, cd.name)
        if key in seen:
            continue
        seen.add(key)
        out.append((mi, cd))
        todo = class_bases(mi, cd) + todo
    return out


def find_method(modname, clsname, meth):
    for mi, cd in mro(modname, clsname):
        for node in cd.body:
            if isinstance(node, ast.FunctionDef) and node.name == meth:
                return mi, cd, node
    return None


def class_attr(modname, clsname, attr):
    """Class-level assignment `attr = expr` (searches the MRO)."""
    for mi, cd in mro(modname, clsname):
        for node in cd.body:
            if isinstance(node, ast.Assign):
                for t in node.targets:
                    if isinstance(t, ast.Name) and t.id == attr:
                        return mi, cd, node.value
                    if isinstance(t, ast.Tuple) and isinstance(node.value, ast.Tuple):
                        for tt, vv in zip(t.elts, node.value.elts):
                            if isinstance(tt, ast.Name) and tt.id == attr:
                                return mi, cd, vv
    return None


def is_subclass_name(modname, clsname, basename):
    """True if class `clsname` (seen from modname) has a base *named* basename (by simple name)."""
    for mi, cd in mro(modname, clsname):
        if cd.name == basename:
            return True
        for b in cd.bases:
            n = b.id if isinstance(b, ast.Name) else (b.attr if isinstance(b, ast.Attribute) else None)
            if n == basename:
                return True
    return False


def fn_digest(node):
    return hashlib.sha1(ast.unparse(node).encode()).hexdigest()[:16]


def strip_docstring(body):
    if body and isinstance(body[0], ast.Expr) and isinstance(body[0].value, ast.Constant) \
            and isinstance(body[0].value.value, str):
        return body[1:], True
    return body, False


BUILTIN_EXC = {
    "BaseException": None, "Exception": "BaseException", "ArithmeticError": "Exception",
    "ZeroDivisionError": "ArithmeticError", "OverflowError": "ArithmeticError",
    "FloatingPointError": "ArithmeticError", "LookupError": "Exception", "IndexError": "LookupError",
    "KeyError": "LookupError", "ValueError": "Exception", "TypeError": "Exception",
    "AttributeError": "Exception", "AssertionError": "Exception", "NotImplementedError": "RuntimeError",
    "RuntimeError": "Exception", "StopIteration": "Exception", "RecursionError": "RuntimeError",
    "UnicodeError": "ValueError", "NameError": "Exception",
}


def exc_is_subclass(exc, base, modname="problog.errors"):
    """exc, base: simple class names.  Builtins by table; repo classes by their AST."""
    if exc == base:
        return True
    seen = set()
    cur = [exc]
    while cur:
        e = cur.pop()
        if e in seen:
            continue
        seen.add(e)
        if e == base:
            return True
        if e in BUILTIN_EXC:
            if BUILTIN_EXC[e]:
                cur.append(BUILTIN_EXC[e])
            continue
        found = None
        for m in [modname, "problog.errors", "problog.engine", "problog.engine_builtin", "problog.logic",
                  "problog.parser", "problog.evaluator", "problog.engine_unify", "problog.core",
                  "problog.formula", "problog.engine_stack", "problog.clausedb", "problog.program"]:
            r = find_class(m, e)
            if r:
                found = r
                break
        if found:
            mi, cd = found
            for b in cd.bases:
                n = b.id if isinstance(b, ast.Name) else (b.attr if isinstance(b, ast.Attribute) else None)
                if n:
                    cur.append(n)
    return False
