"""Run cvc5 (Python API 1.4) on an SMT-LIB file in a process of its own: cvc5 and z3 must not share
a process (observed memory corruption in z3 after cvc5 had been loaded)."""
import sys


def main():
    import cvc5
    path, tlimit = sys.argv[1], sys.argv[2]
    text = open(path).read()
    slv = cvc5.Solver()
    slv.setOption("tlimit-per", tlimit)
    slv.setOption("strings-exp", "true")
    slv.setOption("dt-nested-rec", "true")
    slv.setLogic("ALL")
    parser = cvc5.InputParser(slv)
    text = "\n".join(l for l in text.splitlines() if not l.startswith("(set-info") and l.strip() != "(check-sat)")
    parser.setStringInput(cvc5.InputLanguage.SMT_LIB_2_6, text, "ob")
    sm = parser.getSymbolManager()
    while True:
        cmd = parser.nextCommand()
        if cmd.isNull():
            break
        cmd.invoke(slv, sm)
    r = slv.checkSat()
    print("unsat" if r.isUnsat() else ("sat" if r.isSat() else "unknown"))


if __name__ == "__main__":
    try:
        main()
    except Exception as e:
        print("unknown")
        sys.stderr.write("cvc5 runner: %s\n" % e)
