"""Per-path execution state: path condition, decisions, obligations, heap."""
import z3
from .types import *
from .values import *


def _light(c):
    seen = set()
    todo = [c]
    n = 0
    while todo:
        e = todo.pop()
        k = e.get_id()
        if k in seen:
            continue
        seen.add(k)
        n += 1
        if n > 4000:
            return False
        if z3.is_quantifier(e):
            return False
        if z3.is_app(e):
            if e.decl().kind() == z3.Z3_OP_RECURSIVE:
                return False
            todo.extend(e.children())
    return True


class PathEnd(Exception):
    """This path needs no further exploration (infeasible, or cut at a loop back-edge)."""


class ReturnSignal(Exception):
    def __init__(self, val):
        self.val = val


class RaiseSignal(Exception):
    def __init__(self, exc, line=0, payload=None):
        self.exc, self.line, self.payload = exc, line, payload


class BreakSignal(Exception):
    pass


class ContinueSignal(Exception):
    pass


class StaleContract(Exception):
    """Contract does not bind to the current source -> UNDECIDED(stale-contract)."""


class Obligation(object):
    __slots__ = ("name", "kind", "pc", "goal", "line", "path", "fn", "inputs", "extra")

    def __init__(self, name, kind, pc, goal, line, path, fn, inputs):
        self.name, self.kind, self.pc, self.goal, self.line, self.path, self.fn, self.inputs = \
            name, kind, pc, goal, line, path, fn, inputs
        self.extra = None

    def key(self):
        s = z3.Solver()
        s.add(*self.pc)
        s.add(z3.Not(self.goal))
        return self.name + "|" + s.sexpr()


class Frame(object):
    """One activation of a function body (top-level function or an inlined callee)."""

    def __init__(self, modname, clsname, fname, spec=None):
        self.modname, self.clsname, self.fname, self.spec = modname, clsname, fname, spec
        self.locals = {}
        self.alias = {}          # local name -> lvalue path it aliases
        self.entry_locals = {}
        self.entry_heap = None
        self.handlers = []       # stack of lists of exception names caught by enclosing try blocks
        self.yielded = None
        self.loop_counter = 0
        self.defs = {}
        self.param_names = []


class Ctx(object):
    def __init__(self, trace, fnname):
        self.trace = list(trace)
        self.taken = []
        self.pending = []
        self.pc = []
        self.obligations = []
        self.heap = {}           # (cls, field) -> z3 array Ref -> sort(fieldtype)
        self.heap_ty = {}
        self.alloc = z3.Const("alloc0", z3.ArraySort(Ref, z3.BoolSort()))
        self.counter = {}
        self.fnname = fnname
        self.inputs = []         # (name, Val) of symbolic inputs, for counter-model replay
        self.feas = z3.Solver()
        self.feas.set("timeout", 400)
        self.notes = set()
        self.reached = []

    def fresh(self, base, ty):
        n = self.counter.get(base, 0)
        self.counter[base] = n + 1
        name = "%s!%d" % (base, n) if n else base
        if isinstance(ty, (TFun, TType)):
            raise Unsupported("fresh value of type %s" % ty)
        v = Val(ty, z3.Const(name, sort(ty)))
        for c in type_invariant(v):
            self.assume(c)
        return v

    def assume(self, c):
        if isinstance(c, bool):
            c = z3.BoolVal(c)
        if z3.is_and(c) and c.num_args() > 1:
            for x in c.children():
                self.assume(x)
            return
        self.pc.append(c)
        # the feasibility solver only prunes; it may ignore hard hypotheses (quantifiers,
        # recursive functions) since fewer hypotheses only make it prune less
        if _light(c):
            self.feas.add(c)

    def path_id(self):
        s = "".join("T" if b else "F" for b in self.taken) or "-"
        if len(s) > 24:
            import hashlib
            s = "%s~%s(%d)" % (s[:8], hashlib.sha1(s.encode()).hexdigest()[:8], len(s))
        return s

    def decide(self, c):
        c = z3.simplify(c)
        if z3.is_true(c):
            return True
        if z3.is_false(c):
            return False
        i = len(self.taken)
        if i < len(self.trace):
            b = self.trace[i]
        else:
            can_t = self._feasible(c)
            can_f = self._feasible(z3.Not(c))
            if can_t and can_f:
                b = True
                self.pending.append(self.taken + [False])
            elif can_t:
                b = True
            elif can_f:
                b = False
            else:
                raise PathEnd()
        self.taken.append(b)
        self.assume(c if b else z3.Not(c))
        return b

    def _feasible(self, c):
        self.feas.push()
        self.feas.add(c)
        r = self.feas.check()
        self.feas.pop()
        return r != z3.unsat

    def oblige(self, goal, name, kind, line=0):
        if isinstance(goal, bool):
            goal = z3.BoolVal(goal)
        if z3.is_and(goal) and goal.num_args() > 1:
            # one obligation per conjunct (large conjunctions are what makes queries unstable)
            for i, g in enumerate(goal.children()):
                self.oblige(g, "%s.%d" % (name, i), kind, line)
            return
        g = z3.simplify(goal)
        if not z3.is_true(g):
            self.obligations.append(Obligation(name, kind, list(self.pc), goal, line, self.path_id(),
                                               self.fnname, list(self.inputs)))
        else:
            self.obligations.append(Obligation(name, kind, None, goal, line, self.path_id(),
                                               self.fnname, None))
        self.assume(goal)

    # ------------------------------------------------------------ heap
    def field_array(self, cls, field, fty):
        k = (cls, field)
        if k not in self.heap:
            self.heap[k] = z3.Const("H_%s_%s" % (cls, field), z3.ArraySort(Ref, sort(fty)))
            self.heap_ty[k] = fty
        return self.heap[k]

    def read_field(self, ref, cls, field, fty):
        arr = self.field_array(cls, field, fty)
        v = Val(fty, z3.Select(arr, ref))
        if isinstance(fty, (TList, TDict, TTuple, TOpt)):
            k = ("tinv", arr.get_id(), ref.get_id())
            if k not in self.counter:
                self.counter[k] = 1
                for c in type_invariant(v):
                    self.assume(c)
        return v

    def write_field(self, ref, cls, field, fty, val):
        arr = self.field_array(cls, field, fty)
        self.heap[(cls, field)] = z3.Store(arr, ref, term_of(coerce(val, fty)))

    def havoc_field(self, cls, field, fty, at=None):
        arr = self.field_array(cls, field, fty)
        n = self.counter.get("H_%s_%s" % (cls, field), 0) + 1
        self.counter["H_%s_%s" % (cls, field)] = n
        new = z3.Const("H_%s_%s!%d" % (cls, field, n), z3.ArraySort(Ref, sort(fty)))
        if at is not None:
            new = z3.Store(arr, at, z3.Select(new, at))
        self.heap[(cls, field)] = new
        return new

    def snapshot(self):
        return (dict(self.heap), self.alloc)

    def new_ref(self, cls):
        r = self.fresh("new_" + cls, TRef(cls))
        self.assume(z3.Not(z3.Select(self.alloc, r.t)))
        self.assume(r.t != NULLREF)
        self.alloc = z3.Store(self.alloc, r.t, z3.BoolVal(True))
        return r
