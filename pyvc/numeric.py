"""Numeric operations beyond + - * /: floor division, modulo and powers on floats, integer powers,
round/ceil/floor/trunc.  Integer and float powers are shared uninterpreted symbols (ipow, fpow): a
contract that also writes `a ** b` denotes the same function, so what is proved about a power is
"right function, right arguments", plus the cases where Python's result is not a number at all
(complex) or raises.
"""
import z3
from .types import *
from .values import *
from .state import *

ipow = z3.Function("ipow", z3.IntSort(), z3.IntSort(), z3.IntSort())
fpow = z3.Function("fpow", z3.RealSort(), z3.RealSort(), z3.RealSort())


def _fin(v):
    return XR().is_Fin(v.t)


def _r(v):
    return XR().r(v.t)


class NumMixin(object):
    def need_finite(self, v, node, what):
        if not self.spec_mode:
            self.ctx.oblige(_fin(v), "%s/safety:non-finite-%s#%d" % (self.ctx.fnname, what, self.site(node)), "safety",
                            getattr(node, "lineno", 0))

    def float_binop(self, op, a, b, node):
        X = XR()
        if op in ("FloorDiv", "Mod"):
            self.safety(b.t != ffin(0), "ZeroDivisionError", "float-" + op.lower(), node)
            self.need_finite(a, node, op)
            self.need_finite(b, node, op)
            q = z3.ToReal(z3.ToInt(_r(a) / _r(b)))
            if op == "FloorDiv":
                return Val(FLOAT, X.Fin(q))
            return Val(FLOAT, X.Fin(_r(a) - _r(b) * q))
        if op == "Pow":
            self.need_finite(a, node, "pow")
            self.need_finite(b, node, "pow")
            x, y = _r(a), _r(b)
            integral = z3.ToReal(z3.ToInt(y)) == y
            if not self.spec_mode:
                # Python returns a complex number for a negative base with a non-integral exponent
                if self.ctx.decide(z3.And(x < 0, z3.Not(integral))):
                    return self.ctx.fresh("complex", TAbs("Complex"))
                self.safety(z3.Not(z3.And(x == 0, y < 0)), "ZeroDivisionError", "zero-to-negative-power", node)
                self.may_overflow(node, "float-pow")
            return Val(FLOAT, X.Fin(fpow(x, y)))
        raise Unsupported("float binop %s" % op)

    def may_overflow(self, node, what):
        """Python raises OverflowError when a float result is out of range; modelled as a possible
        exception whenever the contract or an enclosing try mentions it (else: A-float ignores range)."""
        if getattr(self.spec, "float_overflow", False) and not self.spec_mode:
            b = z3.Bool("overflow_%s!%d" % (what.replace("-", "_"), self.bound_counter()))
            if self.expected("OverflowError"):
                if self.ctx.decide(b):
                    raise RaiseSignal("OverflowError", getattr(node, "lineno", 0))
            else:
                self.ctx.oblige(z3.Not(b), "%s/safety:OverflowError:%s#%d" % (self.ctx.fnname, what, self.site(node)),
                                "safety", getattr(node, "lineno", 0))

    def pow_other(self, a, b, node):
        # int ** int: exact integer for a non-negative exponent, a float otherwise
        if self.spec_mode:
            return vint(ipow(a.t, b.t))
        if self.ctx.decide(b.t >= 0):
            return vint(ipow(a.t, b.t))
        self.safety(a.t != 0, "ZeroDivisionError", "zero-to-negative-power", node)
        return Val(FLOAT, XR().Fin(fpow(z3.ToReal(a.t), z3.ToReal(b.t))))

    # ------------------------------------------------------------ builtins
    def bi_round(self, args, kwargs, node):
        v = args[0]
        if len(args) != 1:
            raise Unsupported("round with ndigits")
        if v.ty == INT:
            return v
        if v.ty != FLOAT:
            raise Unsupported("round(%s)" % v.ty)
        self.safety(_fin(v), "OverflowError", "round-inf", node)
        x = _r(v)
        fl = z3.ToInt(x)
        frac = x - z3.ToReal(fl)
        # banker's rounding: halves go to the even neighbour
        return vint(z3.If(frac < 0.5, fl, z3.If(frac > 0.5, fl + 1, z3.If(fl % 2 == 0, fl, fl + 1))))

    def _floorlike(self, args, node, kind):
        v = args[0]
        if v.ty == INT:
            return v
        v = to_float(v)
        self.safety(_fin(v), "OverflowError", kind + "-inf", node)
        x = _r(v)
        fl = z3.ToInt(x)
        if kind == "floor":
            return vint(fl)
        if kind == "ceil":
            return vint(z3.If(z3.ToReal(fl) == x, fl, fl + 1))
        return vint(z3.If(x >= 0, fl, z3.If(z3.ToReal(fl) == x, fl, fl + 1)))   # trunc

    def bi_math_floor(self, args, kwargs, node):
        return self._floorlike(args, node, "floor")

    def bi_math_ceil(self, args, kwargs, node):
        return self._floorlike(args, node, "ceil")

    def bi_math_trunc(self, args, kwargs, node):
        return self._floorlike(args, node, "trunc")

    def bi_math_pow(self, args, kwargs, node):
        a, b = to_float(args[0]), to_float(args[1])
        self.need_finite(a, node, "pow")
        self.need_finite(b, node, "pow")
        x, y = _r(a), _r(b)
        integral = z3.ToReal(z3.ToInt(y)) == y
        self.safety(z3.Not(z3.And(x < 0, z3.Not(integral))), "ValueError", "pow-domain", node)
        self.safety(z3.Not(z3.And(x == 0, y < 0)), "ValueError", "pow-zero-negative", node)
        self.may_overflow(node, "math-pow")
        return Val(FLOAT, XR().Fin(fpow(x, y)))
