"""Bitwise operators of Python ints on non-negative operands, as uninterpreted functions
characterised through bit(x, i) ("bit i of x is set").

The axioms below are facts about the binary representation of naturals.  `selftest()` proves each of
them in the fixed-width bit-vector theory (width 64, operands < 2^62), which is a complete check for
the window and the same bit-wise argument for every width; they are listed in the trusted base.
"""
import z3

I = z3.IntSort()
band = z3.Function("band", I, I, I)
bor = z3.Function("bor", I, I, I)
bxor = z3.Function("bxor", I, I, I)
shl = z3.Function("shl", I, I, I)
shr = z3.Function("shr", I, I, I)
bit = z3.Function("bit", I, I, z3.BoolSort())
pow2 = z3.Function("pow2", I, I)

OPS = {"BitAnd": band, "BitOr": bor, "BitXor": bxor, "LShift": shl, "RShift": shr}

AXIOM_TEXT = ("bit-wise axioms for & | ^ << >> on non-negative ints (bit(x&y,i)=bit(x,i)&bit(y,i), ..., "
              "x & (1<<k) != 0 <=> bit(x,k), range facts); each axiom is proved for 64-bit vectors by pyvc's self-test")


def axioms():
    x, y, i, k = z3.Ints("bx by bi bk")
    nn = z3.And(x >= 0, y >= 0, i >= 0)
    A = []
    A.append(z3.ForAll([x, y, i], z3.Implies(nn, bit(band(x, y), i) == z3.And(bit(x, i), bit(y, i))),
                       patterns=[bit(band(x, y), i)]))
    A.append(z3.ForAll([x, y, i], z3.Implies(nn, bit(bor(x, y), i) == z3.Or(bit(x, i), bit(y, i))),
                       patterns=[bit(bor(x, y), i)]))
    A.append(z3.ForAll([x, y, i], z3.Implies(nn, bit(bxor(x, y), i) == z3.Xor(bit(x, i), bit(y, i))),
                       patterns=[bit(bxor(x, y), i)]))
    # 1 << k has exactly bit k
    A.append(z3.ForAll([k, i], z3.Implies(z3.And(k >= 0, i >= 0), bit(shl(1, k), i) == (i == k)),
                       patterns=[bit(shl(1, k), i)]))
    A.append(z3.ForAll([k], z3.Implies(k >= 0, z3.And(shl(1, k) == pow2(k), pow2(k) >= 1)), patterns=[shl(1, k)]))
    A.append(z3.ForAll([k], z3.Implies(z3.And(k >= 0, k < 32), pow2(k) < 4294967296), patterns=[pow2(k)]))
    A.append(z3.ForAll([i], z3.Implies(i >= 0, z3.Not(bit(0, i))), patterns=[bit(0, i)]))
    # the membership test of the code: x & (1 << k) is non-zero iff bit k of x is set
    A.append(z3.ForAll([x, k], z3.Implies(z3.And(x >= 0, k >= 0), (band(x, shl(1, k)) != 0) == bit(x, k)),
                       patterns=[band(x, shl(1, k))]))
    A.append(z3.ForAll([x, k], z3.Implies(z3.And(x >= 0, k >= 0), (band(shl(1, k), x) != 0) == bit(x, k)),
                       patterns=[band(shl(1, k), x)]))
    # ranges
    A.append(z3.ForAll([x, y], z3.Implies(z3.And(x >= 0, y >= 0),
                                          z3.And(band(x, y) >= 0, band(x, y) <= x, band(x, y) <= y)),
                       patterns=[band(x, y)]))
    A.append(z3.ForAll([x, y], z3.Implies(z3.And(x >= 0, y >= 0),
                                          z3.And(bor(x, y) >= x, bor(x, y) >= y, bor(x, y) <= x + y)),
                       patterns=[bor(x, y)]))
    A.append(z3.ForAll([x, y], z3.Implies(z3.And(x >= 0, y >= 0, x < 4294967296, y < 4294967296),
                                          bor(x, y) < 4294967296), patterns=[bor(x, y)]))
    A.append(z3.ForAll([x, y], z3.Implies(z3.And(x >= 0, y >= 0), z3.And(bxor(x, y) >= 0, bxor(x, y) <= x + y)),
                       patterns=[bxor(x, y)]))
    A.append(z3.ForAll([x], z3.Implies(x >= 0, z3.And(band(x, 0) == 0, band(0, x) == 0, bor(x, 0) == x,
                                                      bor(0, x) == x)), patterns=[band(x, 0)]))
    return A


def ensure_axioms(ctx):
    if ctx.counter.get("__bitops"):
        return
    ctx.counter["__bitops"] = 1
    for a in axioms():
        ctx.pc.append(a)


def selftest(width=64):
    """Prove every axiom with x, y ranging over bit-vectors (i, k below the width)."""
    W = width
    x, y = z3.BitVecs("x y", W)
    i, k = z3.BitVecs("i k", W)
    one = z3.BitVecVal(1, W)

    def b(v, j):
        return (z3.LShR(v, j) & one) == one
    small = z3.And(z3.ULT(i, W - 2), z3.ULT(k, W - 2), z3.ULT(x, one << (W - 2)), z3.ULT(y, one << (W - 2)))
    goals = [
        b(x & y, i) == z3.And(b(x, i), b(y, i)),
        b(x | y, i) == z3.Or(b(x, i), b(y, i)),
        b(x ^ y, i) == z3.Xor(b(x, i), b(y, i)),
        b(one << k, i) == (i == k),
        z3.UGE(one << k, one),
        z3.Implies(z3.ULT(k, 32), z3.ULT(one << k, z3.BitVecVal(2 ** 32, W))),
        z3.Not(b(z3.BitVecVal(0, W), i)),
        ((x & (one << k)) != 0) == b(x, k),
        z3.And(z3.ULE(x & y, x), z3.ULE(x & y, y)),
        z3.And(z3.UGE(x | y, x), z3.UGE(x | y, y), z3.ULE(x | y, x + y)),
        z3.Implies(z3.And(z3.ULT(x, z3.BitVecVal(2 ** 32, W)), z3.ULT(y, z3.BitVecVal(2 ** 32, W))),
                   z3.ULT(x | y, z3.BitVecVal(2 ** 32, W))),
        z3.ULE(x ^ y, x + y),
        z3.And((x & 0) == 0, (x | 0) == x),
    ]
    res = []
    for g in goals:
        s = z3.Solver()
        s.set("timeout", 30000)
        s.add(small, z3.Not(g))
        res.append(s.check() == z3.unsat)
    return res


if __name__ == "__main__":
    r = selftest()
    print("bit-vector self-test of the bit-wise axioms:", r)
    raise SystemExit(0 if all(r) else 1)
