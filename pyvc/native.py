"""Native replay of a counter-model against the real code (runs under the repository's interpreter,
no z3).  Reads a JSON request on stdin, prints a JSON verdict on the last line of stdout.

For a lemma harness: the harness function is executed as ordinary Python with `requires`,
`implies`, ... bound to native versions; an AssertionError (or an exception the harness does not
expect) confirms the violation.
For a function contract: the real function is called on the concretised inputs and the contract's
ensures / raises clauses are evaluated natively (quantifiers range over a window derived from the
sizes of the containers in scope).
"""
import importlib
import json
import math
import sys
import traceback
from fractions import Fraction


class Skip(Exception):
    pass


def requires(c):
    if not c:
        raise Skip()


def implies(a, b):
    return (not a) or bool(b)


def iff(a, b):
    return bool(a) == bool(b)


def isfinite(x):
    return not math.isinf(x)


QWINDOW = [24]
UNIVERSE = {}


def _domains(f, types):
    import inspect
    import itertools
    n = len(inspect.signature(f).parameters)
    if types is None:
        tl = ["Int"] * n
    elif isinstance(types, str):
        tl = [types]
    else:
        tl = list(types)
    doms = []
    for t in tl:
        if t == "Int":
            doms.append(range(-2, QWINDOW[0]))
        elif t in UNIVERSE:
            doms.append(sorted(UNIVERSE[t], key=repr))
        else:
            raise Skip()
    return itertools.product(*doms)


def forall(f, types=None):
    try:
        return all(f(*xs) for xs in _domains(f, types))
    except (IndexError, KeyError, TypeError):
        raise Skip()


def exists(f, types=None):
    try:
        return any(f(*xs) for xs in _domains(f, types))
    except (IndexError, KeyError, TypeError):
        raise Skip()


def typed(v, t):
    return v


NATIVES = dict(requires=requires, implies=implies, iff=iff, isfinite=isfinite, forall=forall, exists=exists,
               typed=typed, math=math, Skip=Skip, allocated=lambda x: True, unwrap=lambda x: x)


class Builder(object):
    def __init__(self, heap, mod):
        self.heap = heap or {}
        self.mod = mod
        self.objs = {}

    def build(self, v):
        if isinstance(v, dict):
            if "float" in v:
                s = v["float"]
                if s == "inf":
                    return float("inf")
                if s == "-inf":
                    return float("-inf")
                return float(Fraction(s))
            if "tuple" in v:
                return tuple(self.build(x) for x in v["tuple"])
            if "dict" in v:
                return dict((self._hashable(self.build(k)), self.build(x)) for k, x in v["dict"])
            if "set" in v:
                return set(self._hashable(self.build(x)) for x in v["set"])
            if "ref" in v:
                return self.ref(v["ref"])
            if "abs" in v:
                fac = getattr(self.mod, "NATIVE_ABS", {}).get(v.get("sort"))
                if fac is not None:
                    val = fac(v["abs"])
                elif "rank" in v:
                    val = v["rank"]
                else:
                    val = v["abs"]
                UNIVERSE.setdefault(v.get("sort"), set()).add(val)
                return val
            if "term" in v:
                from pyvc import native_term
                return native_term.build(v["term"])
            raise Skip()
        if isinstance(v, list):
            return [self.build(x) for x in v]
        return v

    def _hashable(self, x):
        if isinstance(x, list):
            return tuple(x)
        return x

    def ref(self, name):
        if name in self.objs:
            return self.objs[name]
        info = self.heap.get(name)
        if info is None:
            raise Skip()
        cls = info["cls"]
        fac = getattr(self.mod, "NATIVE_REF", {}).get(cls)
        if info.get("record"):
            n = len(info["fields"])
            obj = [None] * n
            self.objs[name] = obj
            for k, fv in info["fields"].items():
                obj[int(k)] = self.build(fv)
            return obj
        if fac is not None:
            obj = fac(info, self)
            self.objs[name] = obj
            return obj
        m = importlib.import_module(info["module"])
        klass = getattr(m, cls)
        obj = object.__new__(klass)
        self.objs[name] = obj
        for k, fv in (info["fields"] or {}).items():
            if k.startswith("g_"):
                continue
            setattr(obj, k, self.build(fv))
        return obj


def main():
    req = json.load(sys.stdin)
    pid = req["property"]
    mod = importlib.import_module("contracts." + pid)
    for k, v in NATIVES.items():
        setattr(mod, k, v)
    py = req.get("pyinputs") or {}
    args = py.get("args")
    qual = req["qual"]
    verdict = dict(confirmed=None, text="")
    try:
        if py.get("recipe") is not None:
            from pyvc import native_fn
            vals = mod.native_build(qual, py["recipe"])
            fs = native_fn.find_spec(mod, qual)
            ok, text = native_fn.evaluate_contract(mod, fs, native_fn.resolve(fs), vals)
            print(json.dumps(dict(confirmed=(None if ok is None else (not ok)),
                                  text="%s on recipe %s: %s" % (qual, json.dumps(py["recipe"])[:300], text))))
            return
        if args is None:
            raise Skip()
        b = Builder(py.get("heap"), mod)
        vals = dict((n, b.build(v)) for n, v in args.items())
        sizes = [len(x) for x in vals.values() if isinstance(x, (list, dict, set, tuple, str))]
        for o in b.objs.values():
            for a in getattr(o, "__dict__", {}).values():
                if hasattr(a, "__len__"):
                    sizes.append(len(a))
        QWINDOW[0] = min(40, max([8] + [s + 3 for s in sizes]))
        if qual.startswith("lemma:"):
            f = getattr(mod, qual[6:])
            try:
                # float equalities in the harness are evaluated with a tolerance natively
                import ast as _ast
                import inspect as _inspect
                import textwrap as _tw
                from pyvc import native_fn as _nf
                tree = _ast.parse(_tw.dedent(_inspect.getsource(f)))
                tree.body[0].decorator_list = []
                for a in tree.body[0].args.args:
                    a.annotation = None
                tree = _nf.TolerantEq().visit(tree)
                _ast.fix_missing_locations(tree)
                g = dict(vars(mod))
                g["__feq"] = _nf._feq
                exec(compile(tree, "<harness>", "exec"), g)
                f = g[qual[6:]]
            except Exception:
                pass
            try:
                f(**vals)
                verdict = dict(confirmed=False, text="harness %s passes natively on %r" % (qual[6:], _short(vals)))
            except Skip:
                verdict = dict(confirmed=None, text="counter-model does not satisfy the harness precondition natively")
            except AssertionError:
                tb = traceback.extract_tb(sys.exc_info()[2])[-1]
                verdict = dict(confirmed=True, text="native run of harness %s fails `%s` with inputs %s" % (
                    qual[6:], tb.line, _short(vals)))
            except Exception as e:
                verdict = dict(confirmed=True, text="native run of harness %s raises %s: %s with inputs %s" % (
                    qual[6:], type(e).__name__, e, _short(vals)))
        else:
            replay_fn = getattr(mod, "native_replay", None)
            if replay_fn is None:
                from pyvc import native_fn
                verdict = native_fn.replay(mod, qual, vals, b, req)
            else:
                verdict = replay_fn(qual, vals, b, req)
    except Skip:
        verdict = dict(confirmed=None, text="inputs could not be concretised")
    except Exception as e:
        verdict = dict(confirmed=None, text="replay harness error %s: %s" % (type(e).__name__, traceback.format_exc()[-800:]))
    print(json.dumps(verdict))


def _short(vals):
    out = {}
    for k, v in vals.items():
        r = repr(v)
        if hasattr(v, "__dict__") and " object at 0x" in r:
            r = "%s%r" % (type(v).__name__, dict((a, b) for a, b in vars(v).items()))
        out[k] = r if len(r) < 200 else r[:200] + "..."
    return out


if __name__ == "__main__":
    # run through the imported module so that Skip/UNIVERSE are the same objects native_fn sees
    from pyvc import native as _n
    _n.main()
