"""Turn a z3 counter-model into JSON-able descriptions of the Python inputs (for native replay)."""
import z3
from .types import *
from .values import *


def array_entries(m, arr, depth=0):
    """-> (list of (key_expr, val_expr), default_expr or None)"""
    a = m.eval(arr, model_completion=True)
    entries = []
    while True:
        if z3.is_store(a):
            entries.append((a.arg(1), a.arg(2)))
            a = a.arg(0)
            continue
        if z3.is_K(a) or z3.is_const_array(a):
            return list(reversed(entries)), a.arg(0)
        if z3.is_as_array(a):
            f = z3.get_as_array_func(a)
            fi = m[f]
            if fi is None:
                return list(reversed(entries)), None
            ent = []
            for i in range(fi.num_entries()):
                e = fi.entry(i)
                ent.append((e.arg_value(0), e.value()))
            return ent + list(reversed(entries)), fi.else_value()
        if z3.is_quantifier(a) and a.is_lambda():
            return list(reversed(entries)), ("lambda", a)
        return list(reversed(entries)), None


def select(m, arr, idx):
    return m.eval(z3.Select(arr, idx), model_completion=True)


class Concretizer(object):
    def __init__(self, m, executor_types, spec):
        self.m = m
        self.spec = spec
        self.ty = executor_types
        self.refs = {}         # name -> dict(cls=, fields=)
        self.todo = []

    def val(self, v, depth=0):
        m = self.m
        ty = v.ty
        if depth > 12:
            return {"unknown": "depth"}
        t = term_of(v)
        if ty == INT:
            return int(str(m.eval(t, model_completion=True)))
        if ty == BOOL:
            return bool(z3.is_true(m.eval(t, model_completion=True)))
        if ty == NONE:
            return None
        if ty == STR:
            e = m.eval(t, model_completion=True)
            return e.as_string() if z3.is_string_value(e) else {"unknown": str(e)}
        if ty == FLOAT:
            e = m.eval(t, model_completion=True)
            X = XR()
            if z3.is_true(m.eval(X.is_NInf(e), model_completion=True)):
                return {"float": "-inf"}
            if z3.is_true(m.eval(X.is_PInf(e), model_completion=True)):
                return {"float": "inf"}
            r = m.eval(X.r(e), model_completion=True)
            try:
                return {"float": "%s/%s" % (r.numerator_as_long(), r.denominator_as_long())}
            except Exception:
                return {"float": str(r.approx(20)).rstrip("?")}
        if isinstance(ty, TOpt):
            if z3.is_true(m.eval(opt_is_none(v), model_completion=True)):
                return None
            return self.val(opt_val(v), depth + 1)
        if isinstance(ty, TTuple):
            return {"tuple": [self.val(x, depth + 1) for x in tuple_items(v)]}
        if isinstance(ty, TList):
            n = int(str(m.eval(list_len(v), model_completion=True)))
            if n > 64:
                return {"unknown": "list of length %d" % n}
            arr = list_arr(v)
            return [self.val(Val(ty.t, z3.Select(arr, i)), depth + 1) for i in range(n)]
        if isinstance(ty, TDict):
            ents, dflt = array_entries(m, dict_dom(v))
            keys = []
            for k, b in ents:
                if z3.is_true(select(m, dict_dom(v), k)):
                    keys.append(k)
            if dflt is not None and not isinstance(dflt, tuple) and z3.is_true(dflt):
                return {"unknown": "dict with co-finite domain"}
            seen, out = set(), []
            for k in keys:
                s = str(k)
                if s in seen:
                    continue
                seen.add(s)
                out.append([self.val(Val(ty.k, k), depth + 1), self.val(Val(ty.v, z3.Select(dict_map(v), k)), depth + 1)])
            return {"dict": out, "size": int(str(m.eval(dict_size(v), model_completion=True)))}
        if isinstance(ty, TSet):
            ents, dflt = array_entries(m, v.t)
            if dflt is not None and not isinstance(dflt, tuple) and z3.is_true(dflt):
                return {"unknown": "co-finite set"}
            seen, out = set(), []
            for k, b in ents:
                if z3.is_true(select(m, v.t, k)) and str(k) not in seen:
                    seen.add(str(k))
                    out.append(self.val(Val(ty.k, k), depth + 1))
            return {"set": out}
        if isinstance(ty, TRef):
            e = m.eval(t, model_completion=True)
            name = str(e)
            if name not in self.refs:
                self.refs[name] = dict(cls=ty.cls, fields=None)
                self.todo.append((name, ty.cls, e))
            return {"ref": name}
        if isinstance(ty, TAbs):
            e = m.eval(t, model_completion=True)
            out = {"abs": str(e), "sort": ty.name}
            if ty.ordered:
                # rank of the value in the model's total order (native replay uses the rank as the value)
                try:
                    uni = m.get_universe(sort(ty)) or []
                    le = z3.Function("le_" + ty.name, sort(ty), sort(ty), z3.BoolSort())
                    def below(x):
                        return sum(1 for u in uni if (not u.eq(x)) and
                                   z3.is_true(m.eval(le(u, x), model_completion=True)))
                    order = sorted(uni, key=lambda x: (below(x), str(x)))
                    out["rank"] = [str(x) for x in order].index(str(e))
                except Exception:
                    pass
            return out
        if ty == TERM:
            from . import termadt
            return termadt.concretize_term(m, t)
        return {"unknown": str(ty)}

    def heap(self):
        """Resolve the fields of every referenced object in the *initial* heap."""
        while self.todo:
            name, cls, e = self.todo.pop()
            cs = self.spec.classes.get(cls)
            fields = {}
            if cs is not None:
                allf = dict(cs.fields)
                allf.update(cs.ghost)
                for f, tsrc in allf.items():
                    fty = self.ty(tsrc)
                    arr = z3.Const("H_%s_%s" % (cls, f), z3.ArraySort(Ref, sort(fty)))
                    fields[f] = self.val(Val(fty, z3.Select(arr, e)), 1)
            self.refs[name]["fields"] = fields
            self.refs[name]["record"] = bool(cs is not None and cs.record)
            self.refs[name]["module"] = cs.module if cs is not None else None
        return self.refs
