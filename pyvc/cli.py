"""./check <property> [--tier quick|thorough] [--replay <file>] [--update-baseline]

Exit codes: 0 held (after printing KNOWN-FINDING lines), 1 VIOLATION printed, 2 undecided
(solver unknown on unchanged code / outside-subset / stale contract: never reported as a violation),
3 checker error (including the vacuity guards).

Decision rule for an obligation that is not discharged:
  sat + counter-model replays natively on the real code          -> VIOLATION replay=<file>
  sat/unknown, bounded native search of that function finds an input -> VIOLATION replay=<file>
  sat, nothing replays                                           -> VIOLATION ... no-failing-input-found
  unknown, and the function's source differs from the committed baseline on which every obligation of it
  was discharged (an obligation that passed on the unchanged tree and now fails)
                                                                 -> VIOLATION ... no-failing-input-found
  unknown on unchanged source (solver flakiness)                 -> UNDECIDED, exit 2
"""
import importlib
import json
import os
import subprocess
import sys
import time
import traceback

HERE = os.path.dirname(os.path.dirname(os.path.abspath(__file__)))
NATIVE_PY = os.environ.get("PYVC_NATIVE_PY", "/venv/bin/python")
REPO = os.environ.get("PYVC_REPO", "/repo")


def load_known():
    p = os.path.join(HERE, "known_findings.json")
    if not os.path.exists(p):
        return []
    return json.load(open(p)).get("findings", [])


def replay_dir():
    d = os.environ.get("PYVC_REPLAY_DIR") or os.path.join(HERE, "replays")
    os.makedirs(d, exist_ok=True)
    return d


def write_replay(pid, ob, fnres, kind, extra=None):
    safe = "".join(c if c.isalnum() or c in "._-" else "_" for c in ob["name"])[:100]
    path = os.path.join(replay_dir(), "%s-%s.json" % (pid, safe))
    rec = dict(property=pid, obligation=ob["name"], kind=ob["kind"], function=fnres["qual"], file=fnres.get("file"),
               line=ob.get("line"), path=ob.get("path"), solver_status=ob["status"], backend=ob["backend"],
               model=ob.get("model"), replay_kind=kind, extra=extra,
               how_to_replay="cd /verif && ./check %s --replay %s" % (pid, os.path.relpath(path, HERE)))
    if ob.get("smt2"):
        sp = path[:-5] + ".smt2"
        with open(sp, "w") as f:
            f.write(ob["smt2"])
        rec["smt2"] = os.path.relpath(sp, HERE)
    with open(path, "w") as f:
        json.dump(rec, f, indent=1, default=str)
    return path


def native_env():
    env = dict(os.environ)
    env["PYTHONPATH"] = REPO + ":" + HERE
    env["PYTHONDONTWRITEBYTECODE"] = "1"
    return env


def native_replay(pid, fnres, ob):
    """-> (confirmed: bool|None, text).  None = no replay possible for this obligation."""
    py = ob.get("pyinputs")
    if not py:
        return None, "no concretised inputs"
    req = dict(property=pid, qual=fnres["qual"], model=ob.get("model"), pyinputs=py,
               obligation=ob["name"], kind=ob["kind"])
    try:
        p = subprocess.run([NATIVE_PY, "-m", "pyvc.native"], input=json.dumps(req), capture_output=True, text=True,
                           env=native_env(), cwd=HERE, timeout=120)
    except subprocess.TimeoutExpired:
        return None, "native replay timed out"
    out = p.stdout.strip().splitlines()
    last = out[-1] if out else ""
    try:
        r = json.loads(last)
    except Exception:
        return None, "native replay produced no verdict: %s %s" % (p.stdout[-300:], p.stderr[-800:])
    return r.get("confirmed"), r.get("text", "")


def native_search(pid, quals, seed, budget, time_limit=60.0):
    if not quals:
        return {}
    req = dict(property=pid, quals=sorted(quals), seed=seed, budget=budget, time_limit=time_limit)
    try:
        p = subprocess.run([NATIVE_PY, "-m", "pyvc.native_search"], input=json.dumps(req), capture_output=True,
                           text=True, env=native_env(), cwd=HERE, timeout=time_limit * len(quals) + 120)
        out = p.stdout.strip().splitlines()
        return json.loads(out[-1])
    except Exception as e:
        return dict(_error="%s: %s" % (type(e).__name__, e))


def match_known(known, pid, obname):
    for k in known:
        if k.get("property") != pid:
            continue
        pat = k.get("obligation")
        if pat and (pat == obname or (pat.endswith("*") and obname.startswith(pat[:-1]))):
            return k
    return None


def load_baseline(pid):
    p = os.path.join(HERE, "baseline", "%s.json" % pid)
    if os.path.exists(p):
        return json.load(open(p))
    return {}


def main(argv=None):
    argv = argv or sys.argv[1:]
    if not argv:
        print(__doc__)
        return 3
    pid = argv[0]
    tier = os.environ.get("VERIF_TIER", "quick")
    replay = None
    update_baseline = False
    i = 1
    while i < len(argv):
        if argv[i] == "--tier":
            tier = argv[i + 1]
            i += 2
        elif argv[i] == "--replay":
            replay = argv[i + 1]
            i += 2
        elif argv[i] == "--update-baseline":
            update_baseline = True
            i += 1
        else:
            i += 1
    try:
        seed = int(os.environ.get("VERIF_SEED", "0") or 0)
    except ValueError:
        seed = 0
    sys.path.insert(0, HERE)
    os.chdir(HERE)
    if replay:
        return do_replay(pid, replay)
    t0 = time.time()
    try:
        return run_check(pid, tier, seed, t0, update_baseline)
    except SystemExit:
        raise
    except Exception:
        traceback.print_exc()
        print("CHECKER-CRASH property=%s" % pid)
        return 3


def do_replay(pid, path):
    rec = json.load(open(path))
    fnres = dict(qual=rec["function"], file=rec.get("file"))
    ob = dict(name=rec["obligation"], kind=rec["kind"], model=rec.get("model"),
              pyinputs=(rec.get("extra") or {}).get("pyinputs"))
    ok, text = native_replay(pid, fnres, ob)
    print(text)
    if ok:
        print("VIOLATION property=%s replay=%s" % (pid, path))
        return 1
    print("replay did not reproduce a violation (confirmed=%s)" % ok)
    return 0


def run_check(pid, tier, seed, t0, update_baseline=False):
    from pyvc import run as runner
    from pyvc import axioms
    if tier == "thorough":
        os.environ.setdefault("PYVC_Z3_TIMEOUT_MS", "60000")
        os.environ.setdefault("PYVC_CVC5_TIMEOUT_MS", "90000")
    mod = importlib.import_module("contracts." + pid)
    spec = mod.S
    known = load_known()
    baseline = load_baseline(pid)
    spec_results = runner.run_property(pid)[1]
    failing = []          # (obligation dict, function result)
    undecided, crashes, known_hits = [], [], []
    n_obl = n_dis = 0
    backends = {}
    samples = []
    funcs = []
    solver_s = 0.0
    dropped, assumptions, inlined = set(), set(), set()
    new_baseline = {}
    for r in spec_results:
        funcs.append(dict(function=r["qual"], file=r["file"], line=r["line"], sha=r["digest"], paths=r["paths"],
                          returns=r["returns"], raises=r["raises"], obligations=len(r["obligations"]),
                          status=r["status"]))
        dropped |= set(r["dropped"])
        assumptions |= set(r["assumptions"])
        inlined |= set(r["inlined"])
        if r["status"] == "error":
            crashes.append((r["qual"], r["reason"]))
            continue
        if r["status"] == "undecided":
            undecided.append((r["qual"], r["reason"]))
            continue
        if not r["obligations"]:
            crashes.append((r["qual"], "vacuity guard: no obligation generated"))
            continue
        if r.get("unreached") and all(o["status"] == "unsat" for o in r["obligations"]):
            # (when an obligation fails, the code after it is explored under the assumption that it held,
            # which may well be contradictory: the failing obligation is what gets reported then)
            crashes.append((r["qual"], "vacuity guard: statements unreachable under the contract's precondition: %s"
                            % "; ".join(r["unreached"][:5])))
            continue
        if r["returns"] + sum(r["raises"].values()) == 0:
            crashes.append((r["qual"], "vacuity guard: no path reaches a return or raise (contradictory requires?)"))
            continue
        all_ok = True
        for o in r["obligations"]:
            n_obl += 1
            solver_s += o["seconds"]
            if o["status"] == "unsat":
                n_dis += 1
                backends[o["backend"]] = backends.get(o["backend"], 0) + 1
                if len(samples) < 6 and o["backend"] != "simplifier":
                    samples.append(dict(obligation=o["name"], kind=o["kind"], path=o["path"], backend=o["backend"],
                                        seconds=o["seconds"]))
            else:
                all_ok = False
                k = match_known(known, pid, o["name"])
                if k is not None:
                    known_hits.append((k, o, r))
                else:
                    failing.append((o, r))
        if all_ok:
            new_baseline[r["qual"]] = dict(digest=r["digest"], callees=sorted(r["inlined"]),
                                           obligations=len(r["obligations"]))

    # ---- bounded native search: for failing functions always; as stand-in/audit per tier
    gen_quals = [q for q in list(spec.fns) if hasattr(mod, "native_cases") and
                 getattr(spec.fns[q], "src", None) is None and not spec.fns[q].abstract
                 and not (spec.fns[q].inline and not spec.fns[q].ensures)]
    fail_quals = sorted(set(r["qual"] for o, r in failing if r["qual"] in spec.fns))
    budget = int(os.environ.get("PYVC_NATIVE_BUDGET", "0")) or (3000 if tier == "thorough" else 300)
    search_res = {}
    if gen_quals:
        search_res = native_search(pid, gen_quals, seed, budget, time_limit=(120.0 if tier == "thorough" else 20.0))
    bounded = []
    native_fail = {}
    if "_error" in search_res:
        crashes.append(("native-search", search_res["_error"]))
        search_res = {}
    for q, sr in search_res.items():
        if sr.get("error"):
            crashes.append((q, "native search: " + sr["error"]))
            continue
        if sr.get("note") == "no generator" or (sr["evaluations"] == 0 and not sr["failures"]):
            continue
        bounded.append(dict(name=q, kind="run-time contract evaluation on generated inputs (bounded stand-in)",
                            evaluations=sr["evaluations"], distinct_nontrivial=sr["nontrivial"], skipped=sr["skipped"],
                            samples=sr.get("samples", [])))
        real = [f for f in sr["failures"] if not f.get("harness")]
        for f in sr["failures"]:
            if f.get("harness"):
                crashes.append((q, f["text"]))
        if real:
            native_fail[q] = real[0]
    extra_bounded = getattr(mod, "bounded", None)
    bounded_viol = []
    if extra_bounded is not None:
        for b in extra_bounded(tier, seed):
            bounded.append(dict((k, v) for k, v in b.items() if k != "violations"))
            for v in b.get("violations", []):
                bounded_viol.append((b, v))

    exit_code = 0
    printed = set()
    for k, o, r in known_hits:
        key = k.get("id") or k.get("obligation")
        if key in printed:
            continue
        printed.add(key)
        print("KNOWN-FINDING: property=%s %s" % (pid, k.get("what", k.get("obligation"))))
    nviol = 0
    reported_fn = set()
    reported_ob = set()

    def report(o, r, confirmed, text, pyinputs=None):
        nonlocal nviol, exit_code
        path = write_replay(pid, o, r, "native-confirmed" if confirmed else "no-failing-input-found",
                            extra=dict(native=text, pyinputs=pyinputs if pyinputs is not None else o.get("pyinputs")))
        rel = os.path.relpath(path, HERE)
        nviol += 1
        exit_code = 1
        print("FAILED-OBLIGATION %s [%s/%s] %s" % (o["name"], o["status"], o["backend"], (text or "")[:400]))
        if confirmed:
            print("VIOLATION property=%s replay=%s" % (pid, rel))
        else:
            print("VIOLATION property=%s replay=%s no-failing-input-found" % (pid, rel))

    for o, r in failing:
        if o["name"] in reported_ob:
            continue
        reported_ob.add(o["name"])
        q = r["qual"]
        ok, text = (None, "")
        if o["status"] == "sat":
            ok, text = native_replay(pid, r, o)
        if ok:
            report(o, r, True, text)
            reported_fn.add(q)
            continue
        if q in native_fail:
            if q not in reported_fn:
                f = native_fail[q]
                report(o, r, True, "bounded native search: " + f["text"], pyinputs=dict(recipe=f["recipe"]))
                reported_fn.add(q)
            continue
        if o["status"] == "sat":
            report(o, r, False, "solver counter-model did not replay natively (%s)" % (text or "")[:200])
            continue
        b = baseline.get(q)
        changed = b is not None and (b.get("digest") != r["digest"])
        if changed:
            report(o, r, False, "obligation was discharged on the baseline source of %s (sha %s) and is %s on the "
                                "current source (sha %s)" % (q, b.get("digest"), o["status"], r["digest"]))
        else:
            undecided.append((q, "obligation %s: solver %s (source unchanged w.r.t. baseline: not a violation)"
                              % (o["name"], o["status"])))
    # failures found only by the native search (contract holds symbolically or function not verified)
    for q, f in native_fail.items():
        if q in reported_fn:
            continue
        k = match_known(known, pid, "native:" + q)
        if k is not None:
            if (k.get("id") or k.get("obligation")) not in printed:
                printed.add(k.get("id") or k.get("obligation"))
                print("KNOWN-FINDING: property=%s %s" % (pid, k.get("what", k.get("obligation"))))
            continue
        o = dict(name="native:" + q, kind="bounded", status="failed", backend="native", line=0, path="-")
        report(o, dict(qual=q, file=None), True, "bounded native search: " + f["text"], pyinputs=dict(recipe=f["recipe"]))
    for b, v in bounded_viol:
        k = match_known(known, pid, v["name"])
        if k is not None:
            if (k.get("id") or k.get("obligation")) not in printed:
                printed.add(k.get("id") or k.get("obligation"))
                print("KNOWN-FINDING: property=%s %s" % (pid, k.get("what", k.get("obligation"))))
            continue
        o = dict(name=v["name"], kind="bounded", status="failed", backend="native", line=0, path="-")
        report(o, dict(qual=b["name"], file=None), True, v.get("text", ""), pyinputs=v.get("inputs"))

    # every finding listed for this property gets its line on every run, also when this run's sample did not hit it
    observed = len(printed)
    for k in known:
        key = k.get("id") or k.get("obligation")
        if k.get("property") == pid and key not in printed:
            printed.add(key)
            print("KNOWN-FINDING: property=%s %s [listed; not hit by this run's sample]"
                  % (pid, k.get("what", k.get("obligation"))))

    for q, why in undecided:
        print("UNDECIDED %s: %s" % (q, (why or "")[:300]))
    for q, why in crashes:
        print("CHECKER-ERROR %s: %s" % (q, (why or "")[:2000]))
    if exit_code == 0 and crashes:
        exit_code = 3
    elif exit_code == 0 and undecided:
        exit_code = 2

    if update_baseline:
        if exit_code == 0:
            os.makedirs(os.path.join(HERE, "baseline"), exist_ok=True)
            with open(os.path.join(HERE, "baseline", "%s.json" % pid), "w") as f:
                json.dump(new_baseline, f, indent=1, sort_keys=True)
            print("baseline/%s.json updated (%d functions)" % (pid, len(new_baseline)))
        else:
            print("baseline NOT updated: check did not pass")

    level = getattr(mod, "LEVEL", "proof")
    trusted = list(spec.assumptions) + sorted(assumptions)
    trusted += getattr(mod, "TRUSTED", [])
    trusted.append("pyvc encoder (Python subset -> SMT) and the solvers z3 5.1.0 / cvc5 1.4.0")
    cov = dict(obligations=n_obl, discharged=n_dis,
               checker_cmd="cd /verif && ./check %s --tier %s" % (pid, tier),
               trusted_base=trusted, samples=samples, backends=backends, solver_seconds=round(solver_s, 2),
               functions_under_contract=funcs, inlined_callees=sorted(inlined),
               dropped_by_extraction=sorted(dropped), unverified_remainder=list(spec.remainder),
               bounded_standins=bounded,
               undecided=[u[0] for u in undecided], known_findings_hit=observed,
               known_findings_listed=len(printed))
    if level != "proof":
        ev = sum(b.get("evaluations", 0) for b in bounded)
        dn = sum(b.get("distinct_nontrivial", 0) for b in bounded)
        cov.update(evaluations=ev, distinct_nontrivial=dn,
                   rule="; ".join(str(b.get("rule", b.get("kind", ""))) for b in bounded),
                   samples=[s for b in bounded for s in b.get("samples", [])][:8] or samples)
    evid = dict(property_id=pid, tier=tier, seed=seed, level=level, coverage=cov,
                assumptions=trusted, wall_s=round(time.time() - t0, 2), violations=nviol)
    evdir = os.environ.get("PYVC_EVIDENCE_DIR") or os.path.join(HERE, "evidence")
    os.makedirs(evdir, exist_ok=True)
    with open(os.path.join(evdir, "%s.json" % pid), "w") as f:
        json.dump(evid, f, indent=1, default=str)
    print("%s: %d/%d obligations discharged over %d functions/lemmas; bounded stand-ins: %d (%d evaluations); "
          "%.1fs; exit %d" % (pid, n_dis, n_obl, len(funcs), len(bounded),
                             sum(b.get("evaluations", 0) for b in bounded), time.time() - t0, exit_code))
    return exit_code


if __name__ == "__main__":
    sys.exit(main())
