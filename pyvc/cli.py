"""./check <property> [--tier quick|thorough] [--replay <file>]

Exit codes: 0 held (after printing KNOWN-FINDING lines), 1 VIOLATION printed, 2 undecided
(unknown / timeout / outside-subset / stale contract: never reported as a violation), 3 crash.
"""
import importlib
import json
import os
import subprocess
import sys
import time
import traceback

HERE = os.path.dirname(os.path.dirname(os.path.abspath(__file__)))
NATIVE_PY = os.environ.get("PYVC_NATIVE_PY", "/venv/bin/python")
REPO = os.environ.get("PYVC_REPO", "/repo")


def load_known():
    p = os.path.join(HERE, "known_findings.json")
    if not os.path.exists(p):
        return []
    return json.load(open(p)).get("findings", [])


def write_replay(pid, ob, fnres, kind, extra=None):
    os.makedirs(os.path.join(HERE, "replays"), exist_ok=True)
    safe = "".join(c if c.isalnum() or c in "._-" else "_" for c in ob["name"])[:100]
    path = os.path.join(HERE, "replays", "%s-%s.json" % (pid, safe))
    rec = dict(property=pid, obligation=ob["name"], kind=ob["kind"], function=fnres["qual"], file=fnres["file"],
               line=ob["line"], path=ob["path"], solver_status=ob["status"], backend=ob["backend"],
               model=ob.get("model"), replay_kind=kind, extra=extra,
               how_to_replay="cd /verif && ./check %s --replay %s" % (pid, os.path.relpath(path, HERE)))
    if ob.get("smt2"):
        sp = path[:-5] + ".smt2"
        with open(sp, "w") as f:
            f.write(ob["smt2"])
        rec["smt2"] = os.path.relpath(sp, HERE)
    with open(path, "w") as f:
        json.dump(rec, f, indent=1, default=str)
    return path


def native_replay(pid, fnres, ob):
    """Run the counter-model against the real code under the repository's interpreter.
    -> (confirmed: bool|None, text).  None = no replay possible for this obligation."""
    if not ob.get("model") and not ob.get("pyinputs"):
        return None, "no model"
    req = dict(property=pid, qual=fnres["qual"], model=ob.get("model"), pyinputs=ob.get("pyinputs"),
               obligation=ob["name"], kind=ob["kind"])
    env = dict(os.environ)
    env["PYTHONPATH"] = REPO + ":" + HERE
    env["PYTHONDONTWRITEBYTECODE"] = "1"
    try:
        p = subprocess.run([NATIVE_PY, "-m", "pyvc.native"], input=json.dumps(req), capture_output=True, text=True,
                           env=env, cwd=HERE, timeout=120)
    except subprocess.TimeoutExpired:
        return None, "native replay timed out"
    out = p.stdout.strip().splitlines()
    last = out[-1] if out else ""
    try:
        r = json.loads(last)
    except Exception:
        return None, "native replay produced no verdict: %s %s" % (p.stdout[-500:], p.stderr[-1500:])
    return r.get("confirmed"), r.get("text", "")


def match_known(known, pid, obname, fixed=False):
    for k in known:
        if k.get("property") != pid:
            continue
        if bool(k.get("fixed")) != fixed:
            continue
        pat = k.get("obligation")
        if pat and (pat == obname or (pat.endswith("*") and obname.startswith(pat[:-1]))):
            return k
    return None


def main(argv=None):
    argv = argv or sys.argv[1:]
    if not argv:
        print(__doc__)
        return 3
    pid = argv[0]
    tier = os.environ.get("VERIF_TIER", "quick")
    replay = None
    i = 1
    while i < len(argv):
        if argv[i] == "--tier":
            tier = argv[i + 1]
            i += 2
        elif argv[i] == "--replay":
            replay = argv[i + 1]
            i += 2
        else:
            i += 1
    seed = int(os.environ.get("VERIF_SEED", "0") or 0)
    sys.path.insert(0, HERE)
    os.chdir(HERE)
    if replay:
        return do_replay(pid, replay)
    t0 = time.time()
    try:
        return run_check(pid, tier, seed, t0)
    except SystemExit:
        raise
    except Exception:
        traceback.print_exc()
        print("CHECKER-CRASH property=%s" % pid)
        return 3


def do_replay(pid, path):
    rec = json.load(open(path))
    fnres = dict(qual=rec["function"], file=rec.get("file"))
    ob = dict(name=rec["obligation"], kind=rec["kind"], model=rec.get("model"), pyinputs=(rec.get("extra") or {}).get("pyinputs"))
    ok, text = native_replay(pid, fnres, ob)
    print(text)
    if ok:
        print("VIOLATION property=%s replay=%s" % (pid, path))
        return 1
    print("replay did not reproduce a violation (confirmed=%s)" % ok)
    return 0


def run_check(pid, tier, seed, t0):
    from pyvc import run as runner
    from pyvc import axioms
    if tier == "thorough":
        os.environ.setdefault("PYVC_Z3_TIMEOUT_MS", "60000")
        os.environ.setdefault("PYVC_CVC5_TIMEOUT_MS", "90000")
    mod = importlib.import_module("contracts." + pid)
    spec = mod.S
    known = load_known()
    spec_results = runner.run_property(pid)[1]
    violations, undecided, crashes, known_hits = [], [], [], []
    n_obl = n_dis = 0
    backends = {}
    samples = []
    funcs = []
    solver_s = 0.0
    dropped, assumptions, inlined = set(), set(), set()
    for r in spec_results:
        funcs.append(dict(function=r["qual"], file=r["file"], line=r["line"], sha=r["digest"], paths=r["paths"],
                          returns=r["returns"], raises=r["raises"], obligations=len(r["obligations"]),
                          status=r["status"]))
        dropped |= set(r["dropped"])
        assumptions |= set(r["assumptions"])
        inlined |= set(r["inlined"])
        if r["status"] == "error":
            crashes.append((r["qual"], r["reason"]))
            continue
        if r["status"] == "undecided":
            undecided.append((r["qual"], r["reason"]))
            continue
        if not r["obligations"]:
            crashes.append((r["qual"], "vacuity guard: no obligation generated"))
            continue
        if r["returns"] + sum(r["raises"].values()) == 0:
            crashes.append((r["qual"], "vacuity guard: no path reaches a return or raise (contradictory requires?)"))
            continue
        for o in r["obligations"]:
            n_obl += 1
            solver_s += o["seconds"]
            if o["status"] == "unsat":
                n_dis += 1
                backends[o["backend"]] = backends.get(o["backend"], 0) + 1
                if len(samples) < 6 and o["backend"] != "simplifier":
                    samples.append(dict(obligation=o["name"], kind=o["kind"], path=o["path"], backend=o["backend"],
                                        seconds=o["seconds"]))
            elif o["status"] == "sat":
                k = match_known(known, pid, o["name"])
                if k is not None:
                    known_hits.append((k, o, r))
                else:
                    violations.append((o, r))
            else:
                undecided.append((r["qual"], "obligation %s: solver %s" % (o["name"], o["status"])))
    # bounded stand-ins (never counted as proved)
    bounded = []
    bfun = getattr(mod, "bounded", None)
    if bfun is not None:
        for b in bfun(tier, seed):
            bounded.append(b)
            for v in b.get("violations", []):
                k = match_known(known, pid, v["name"])
                if k is not None:
                    known_hits.append((k, dict(name=v["name"], kind="bounded", status="failed", backend="native",
                                               line=0, path="-", model=None, pyinputs=v.get("inputs")), dict(qual=b["name"], file=None)))
                else:
                    violations.append((dict(name=v["name"], kind="bounded", status="failed", backend="native", line=0,
                                            path="-", model=None, pyinputs=v.get("inputs"), confirmed=True,
                                            text=v.get("text", "")), dict(qual=b["name"], file=None)))
    exit_code = 0
    printed = set()
    for k, o, r in known_hits:
        key = k.get("id") or k.get("obligation")
        if key in printed:
            continue
        printed.add(key)
        print("KNOWN-FINDING: property=%s %s" % (pid, k.get("what", k.get("obligation"))))
    nviol = 0
    reported = set()
    for o, r in violations:
        if o["name"] in reported:
            continue
        reported.add(o["name"])
        if o.get("confirmed"):
            ok, text = True, o.get("text", "")
        else:
            ok, text = native_replay(pid, r, o)
        path = write_replay(pid, o, r, "native-confirmed" if ok else "no-failing-input-found",
                            extra=dict(native=text, pyinputs=o.get("pyinputs")))
        rel = os.path.relpath(path, HERE)
        nviol += 1
        exit_code = 1
        print("FAILED-OBLIGATION %s [%s/%s] %s" % (o["name"], o["status"], o["backend"], (text or "")[:300]))
        if ok:
            print("VIOLATION property=%s replay=%s" % (pid, rel))
        else:
            print("VIOLATION property=%s replay=%s no-failing-input-found" % (pid, rel))
    for q, why in undecided:
        print("UNDECIDED %s: %s" % (q, (why or "")[:300]))
    for q, why in crashes:
        print("CHECKER-ERROR %s: %s" % (q, (why or "")[:2000]))
    if exit_code == 0 and crashes:
        exit_code = 3
    elif exit_code == 0 and undecided:
        exit_code = 2
    level = getattr(mod, "LEVEL", "proof")
    trusted = list(spec.assumptions) + sorted(assumptions)
    if any("exp_r" in (s or "") for s in []) or getattr(spec, "uses_math", False):
        trusted.append(axioms.AXIOM_TEXT)
    trusted += getattr(mod, "TRUSTED", [])
    cov = dict(obligations=n_obl, discharged=n_dis,
               checker_cmd="cd /verif && ./check %s --tier %s" % (pid, tier),
               trusted_base=trusted, samples=samples, backends=backends, solver_seconds=round(solver_s, 2),
               functions_under_contract=funcs, inlined_callees=sorted(inlined),
               dropped_by_extraction=sorted(dropped), unverified_remainder=list(spec.remainder),
               bounded_standins=[dict((k, v) for k, v in b.items() if k != "violations") for b in bounded],
               undecided=[u[0] for u in undecided], known_findings_hit=len(printed))
    if level != "proof":
        ev = sum(b.get("evaluations", 0) for b in bounded)
        dn = sum(b.get("distinct_nontrivial", 0) for b in bounded)
        cov.update(evaluations=ev, distinct_nontrivial=dn,
                   rule="; ".join(b.get("rule", "") for b in bounded),
                   samples=[s for b in bounded for s in b.get("samples", [])][:8] or samples)
    evid = dict(property_id=pid, tier=tier, seed=seed, level=level, coverage=cov,
                assumptions=trusted, wall_s=round(time.time() - t0, 2), violations=nviol)
    os.makedirs(os.path.join(HERE, "evidence"), exist_ok=True)
    with open(os.path.join(HERE, "evidence", "%s.json" % pid), "w") as f:
        json.dump(evid, f, indent=1, default=str)
    print("%s: %d/%d obligations discharged over %d functions/lemmas; bounded stand-ins: %d; %.1fs; exit %d" % (
        pid, n_dis, n_obl, len(funcs), len(bounded), time.time() - t0, exit_code))
    return exit_code


if __name__ == "__main__":
    sys.exit(main())
