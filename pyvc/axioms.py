"""Ground instantiation of the axioms of exp/log on the terms occurring in a query.

The solver is never given the quantified field axioms (they make queries `unknown`); the
generator instantiates them on the exp_r/log_r applications that occur, for a few rounds.
Axioms (for reals):  exp x > 0;  exp x >= 1 + x;  log(exp x) = x;  x > 0 => exp(log x) = x;
z = x + y => exp z = exp x * exp y  (for all triples of occurring exp arguments);  exp and log
strictly monotone (pairwise on occurring terms); exp 0 = 1; log 1 = 0.
These are theorems of real analysis: the trusted base lists them.
"""
import z3

exp_r = z3.Function("exp_r", z3.RealSort(), z3.RealSort())
log_r = z3.Function("log_r", z3.RealSort(), z3.RealSort())

AXIOM_TEXT = ("real exp/log axioms instantiated on occurring terms: exp x > 0, exp x >= 1+x, log(exp x)=x, "
              "x>0 => exp(log x)=x, z=x+y => exp z = exp x * exp y, strict monotonicity, exp 0 = 1, log 1 = 0")


def _collect(es, exps, logs):
    seen = set()
    todo = list(es)
    while todo:
        e = todo.pop()
        k = e.get_id()
        if k in seen:
            continue
        seen.add(k)
        if z3.is_quantifier(e):
            todo.append(e.body())
            continue
        if z3.is_app(e):
            d = e.decl()
            if d.name() == "exp_r" and d.arity() == 1:
                if not _has_var(e.arg(0)):
                    exps.setdefault(e.arg(0).get_id(), e.arg(0))
            elif d.name() == "log_r" and d.arity() == 1:
                if not _has_var(e.arg(0)):
                    logs.setdefault(e.arg(0).get_id(), e.arg(0))
            todo.extend(e.children())


def _has_var(e):
    todo = [e]
    while todo:
        x = todo.pop()
        if z3.is_var(x):
            return True
        todo.extend(x.children())
    return False


def uses_math(formulas):
    exps, logs = {}, {}
    _collect(formulas, exps, logs)
    return bool(exps or logs)


def instantiate(formulas, rounds=3, max_terms=16):
    out = []
    done = set()
    exps, logs = {}, {}
    cur = [z3.simplify(f) for f in formulas]
    for _ in range(rounds):
        _collect(cur, exps, logs)
        new = []
        ex = list(exps.values())[:max_terms]
        lg = list(logs.values())[:max_terms]
        for a in ex:
            k = ("e", a.get_id())
            if k in done:
                continue
            done.add(k)
            new.append(exp_r(a) > 0)
            new.append(log_r(exp_r(a)) == a)
            new.append(z3.Implies(a == 0, exp_r(a) == 1))
            new.append(z3.Implies(a < 0, exp_r(a) < 1))
            new.append(z3.Implies(a > 0, exp_r(a) > 1))
            new.append(exp_r(a) >= 1 + a)
            new.append(z3.Implies(a < 1, exp_r(a) * (1 - a) <= 1))
        for a in lg:
            k = ("l", a.get_id())
            if k in done:
                continue
            done.add(k)
            new.append(z3.Implies(a > 0, exp_r(log_r(a)) == a))
            new.append(z3.Implies(a == 1, log_r(a) == 0))
            new.append(z3.Implies(z3.And(a > 0, a < 1), log_r(a) < 0))
            new.append(z3.Implies(a > 1, log_r(a) > 0))
        for i, a in enumerate(ex):
            for b in ex[i + 1:]:
                k = ("ee", a.get_id(), b.get_id())
                if k in done:
                    continue
                done.add(k)
                new.append(z3.Implies(a < b, exp_r(a) < exp_r(b)))
                new.append(z3.Implies(b < a, exp_r(b) < exp_r(a)))
                new.append(z3.Implies(a == b, exp_r(a) == exp_r(b)))
        for i, a in enumerate(lg):
            for b in lg[i + 1:]:
                k = ("ll", a.get_id(), b.get_id())
                if k in done:
                    continue
                done.add(k)
                new.append(z3.Implies(z3.And(a > 0, b > 0, a < b), log_r(a) < log_r(b)))
                new.append(z3.Implies(z3.And(a > 0, b > 0, b < a), log_r(b) < log_r(a)))
        for i, x in enumerate(ex):
            for y in ex[i:]:
                for z in ex:
                    k = ("t", x.get_id(), y.get_id(), z.get_id())
                    if k in done:
                        continue
                    done.add(k)
                    new.append(z3.Implies(z == x + y, exp_r(z) == exp_r(x) * exp_r(y)))
        if not new:
            break
        out.extend(new)
        cur = new
    return out
