"""Symbolic executor: calls (builtins, container methods, modular and inlined repo calls)."""
import ast
import z3
from .types import *
from .values import *
from .state import *
from . import extract


class CallMixin(object):
    def ev_Call(self, node):
        f = node.func
        # spec-only forms
        if isinstance(f, ast.Name):
            n = f.id
            if n in ("forall", "exists"):
                return self.quantifier(n, node)
            if n == "implies":
                a = self.ev_bool(node.args[0])
                sa = z3.simplify(a)
                if z3.is_false(sa):
                    return vbool(True)
                return vbool(z3.Implies(a, self.ev_bool(node.args[1])))
            if n == "iff":
                return vbool(self.ev_bool(node.args[0]) == self.ev_bool(node.args[1]))
            if n == "old":
                return self.eval_old(node.args[0])
            if n == "requires" and self.in_lemma:
                self.ctx.assume(truthy(self.spec_eval_node(node.args[0])))
                return VNONE
            if n == "isinstance":
                return self.isinstance_(node)
            if n == "typed":        # typed(expr, "Type"): give an untyped empty literal a type
                return self.typed(self.ev(node.args[0]), self.ty(node.args[1].value))
        if any(isinstance(a, ast.Starred) for a in node.args) or any(k.arg is None for k in node.keywords):
            raise Unsupported("star-args in call")
        fv = self.ev(f)
        args = [self.ev(a) for a in node.args]
        kwargs = dict((k.arg, self.ev(k.value)) for k in node.keywords)
        return self.apply(fv, args, kwargs, node)

    def typed(self, v, ty):
        if isinstance(ty, TList) and isinstance(v.ty, TList) and v.ty.t == NONE:
            return mk_list(ty, z3.IntVal(0), list_arr(self.ctx.fresh("empty", ty)))
        if isinstance(ty, TDict) and v.py == "emptydict":
            return self.empty_dict(ty)
        return coerce(v, ty)

    def quantifier(self, kind, node):
        lam = node.args[0]
        if not isinstance(lam, ast.Lambda):
            raise Unsupported("quantifier needs a lambda")
        names = [a.arg for a in lam.args.args]
        tys = [INT] * len(names)
        if len(node.args) > 1:
            tl = node.args[1]
            tsrcs = [e.value for e in tl.elts] if isinstance(tl, (ast.Tuple, ast.List)) else [tl.value]
            tys = [self.ty(s) for s in tsrcs]
        fr = self.fr
        saved = {}
        bvs = []
        c = self.bound_counter()
        for n, t in zip(names, tys):
            saved[n] = fr.locals.get(n)
            bv = z3.Const("%s!q%d" % (n, c), sort(t))
            bvs.append(bv)
            fr.locals[n] = Val(t, bv)
        self.spec_mode += 1
        try:
            body = self.ev_bool(lam.body)
        finally:
            self.spec_mode -= 1
            for n in names:
                if saved[n] is None:
                    fr.locals.pop(n, None)
                else:
                    fr.locals[n] = saved[n]
        q = z3.ForAll(bvs, body) if kind == "forall" else z3.Exists(bvs, body)
        return vbool(q)

    def eval_old(self, expr):
        fr = self.fr
        saved_heap, saved_alloc, saved_locals, saved_alias = self.ctx.heap, self.ctx.alloc, fr.locals, fr.alias
        self.ctx.heap = dict(fr.entry_heap[0])
        self.ctx.alloc = fr.entry_heap[1]
        loc = dict(fr.locals)
        loc.update(fr.entry_locals)
        fr.locals = loc
        fr.alias = {}
        self.spec_mode += 1
        try:
            return self.ev(expr)
        finally:
            self.spec_mode -= 1
            # fields first touched inside old() must exist in the current heap too
            for k, arr in self.ctx.heap.items():
                if k not in saved_heap:
                    saved_heap[k] = arr
                    fr.entry_heap[0].setdefault(k, arr)
            self.ctx.heap, self.ctx.alloc, fr.locals, fr.alias = saved_heap, saved_alloc, saved_locals, saved_alias

    def isinstance_(self, node):
        v = self.ev(node.args[0])
        cls = node.args[1]
        names = [self.exc_name(e) for e in cls.elts] if isinstance(cls, ast.Tuple) else [self.exc_name(cls)]
        return vbool(self.isinstance_val(v, names, node))

    def isinstance_val(self, v, names, node):
        t = v.ty
        res = []
        for n in names:
            if n == "int":
                res.append(z3.BoolVal(t in (INT, BOOL)))
            elif n == "bool":
                res.append(z3.BoolVal(t == BOOL))
            elif n == "float":
                res.append(z3.BoolVal(t == FLOAT))
            elif n == "str":
                res.append(z3.BoolVal(t == STR))
            elif n == "list":
                res.append(z3.BoolVal(isinstance(t, TList)))
            elif n == "tuple":
                res.append(z3.BoolVal(isinstance(t, TTuple)))
            elif n == "dict":
                res.append(z3.BoolVal(isinstance(t, TDict)))
            elif n == "complex":
                res.append(z3.BoolVal(isinstance(t, TAbs) and t.name == "Complex"))
            elif isinstance(t, TRef):
                cs = self.cspec(t.cls)
                if cs is None or cs.record:
                    res.append(z3.BoolVal(False))
                else:
                    res.append(z3.BoolVal(extract.is_subclass_name(cs.module, cs.name, n)))
                    self.assumptions.add("exact class: a value typed Ref[%s] is an instance of exactly that class" % t.cls)
            elif t == TERM:
                res.append(self.term_isinstance(v, n, node))
            elif isinstance(t, TOpt):
                inner = self.isinstance_val(opt_val(v), [n], node)
                res.append(z3.And(z3.Not(opt_is_none(v)), inner))
            else:
                res.append(z3.BoolVal(False))
        return z3.Or(*res) if len(res) > 1 else res[0]

    # ------------------------------------------------------------ application
    def apply(self, fv, args, kwargs, node):
        if isinstance(fv.ty, TFun):
            p = fv.py
            kind = p[0]
            if kind == "builtin":
                return self.call_builtin(p[1], args, kwargs, node)
            if kind == "cmeth":
                return self.container_method(p[1], p[2], p[3], args, kwargs, node)
            if kind == "bound":
                return self.call_method(p[1], p[3], args, kwargs, node)
            if kind == "unbound":
                return self.call_method(args[0], p[3], args[1:], kwargs, node, static_cls=(p[1], p[2]))
            if kind == "func":
                return self.call_function(p[1], None, p[2], None, args, kwargs, node)
            if kind == "lambda":
                return self.call_lambda(p, args, node)
            if kind == "spec":
                if p[1] == "__bincount":
                    # bin(x).count("1") for x >= 0: the number of set bits (shared symbol popcount)
                    lit = z3.simplify(args[0].t) if len(args) == 1 and args[0].ty == STR else None
                    if lit is None or not z3.is_string_value(lit) or lit.as_string() != "1":
                        raise Unsupported("bin(x).count of something else than '1'")
                    x = p[2].t.arg(0)
                    self.safety(x >= 0, "ValueError", "bin-count-negative", node)
                    self.assumptions.add("bin(x).count('1') is popcount(x) for x >= 0; popcount(0) = 0 and "
                                         "popcount(x) >= 0 (axioms of the shared symbol)")
                    pc = z3.Function("popcount", z3.IntSort(), z3.IntSort())
                    self.ctx.assume(pc(x) >= 0)
                    self.ctx.assume(pc(z3.IntVal(0)) == 0)
                    return vint(pc(x))
                return self.spec_funcs[p[1]](self, args, node)
            if kind == "termmeth":
                return self.term_method(p[1], p[2], args, node)
            if kind == "lemmafn":
                lf = self.spec.lemma_fns[p[1]]
                return self.call_modular(lf, lf.module, lf.clsname, lf.fname, lf.src, args, kwargs, node)
        if isinstance(fv.ty, TType):
            p = fv.py
            if p[0] == "class":
                return self.construct(p[1], p[2], args, kwargs, node)
            if p[0] == "exc":
                return Val(TType(), None, ("excinst", p[1]))
        if isinstance(fv.ty, TOpt) and isinstance(fv.ty.t, TAbs):
            self.safety(z3.Not(opt_is_none(fv)), "TypeError", "call-none", node)
            return self.apply(opt_val(fv), args, kwargs, node)
        if isinstance(fv.ty, TAbs):
            return self.call_abstract(fv, args, node)
        raise Unsupported("call of %s" % (fv,))

    def call_abstract(self, fv, args, node):
        """A callable of abstract sort (e.g. UHeap's key function): pure, total, deterministic."""
        rt = self.abs_call_result.get(fv.ty.name)
        if rt is None:
            raise Unsupported("call of abstract %s" % fv.ty)
        rty = self.ty(rt)
        if fv.ty.name in getattr(self.spec, "abs_call_impure", ()):
            # the callable may read mutable state: every call returns an unconstrained value; the
            # value of the latest call is available to contracts as lastcall('<sort>')
            self.assumptions.add("callable of sort %s terminates and does not modify the container" % fv.ty.name)
            if self.spec_mode:
                raise Unsupported("impure callable in a specification")
            v = self.ctx.fresh("call_" + fv.ty.name, rty)
            self.last_abs_result[fv.ty.name] = v
            return v
        f = z3.Function("app_" + fv.ty.name, sort(fv.ty), *([sort(a.ty) for a in args] + [sort(rty)]))
        self.assumptions.add("callable of sort %s is a pure total function" % fv.ty.name)
        return Val(rty, f(fv.t, *[term_of(a) for a in args]))

    def call_lambda(self, p, args, node):
        _, lam, closure, defining_frame = p
        fr = self.fr
        saved = dict(fr.locals)
        names = [a.arg for a in lam.args.args]
        if len(names) != len(args):
            raise Unsupported("lambda arity")
        loc = dict(closure)
        loc.update(saved)
        for n, a in zip(names, args):
            loc[n] = a
        fr.locals = loc
        try:
            return self.ev(lam.body)
        finally:
            fr.locals = saved

    # ------------------------------------------------------------ builtins
    def call_builtin(self, name, args, kwargs, node):
        m = getattr(self, "bi_" + name.replace(".", "_"), None)
        if m is None:
            raise Unsupported("builtin %s" % name)
        return m(args, kwargs, node)

    def bi_len(self, args, kwargs, node):
        v = args[0]
        t = v.ty
        if isinstance(t, TOpt):
            v = self.unwrap(v, node)
            t = v.ty
        if isinstance(t, TList):
            return vint(list_len(v))
        if isinstance(t, TDict):
            if v.py == "emptydict":
                return vint(0)
            return vint(dict_size(v))
        if isinstance(t, TSet):
            return vint(set_card(v))
        if t == STR:
            return vint(z3.Length(v.t))
        if isinstance(t, TTuple):
            return vint(len(t.items))
        if isinstance(t, TRef):
            return self.call_method(v, "__len__", [], {}, node)
        return self.len_other(v, node)

    def len_other(self, v, node):
        raise Unsupported("len of %s" % v.ty)

    def bi_bool(self, args, kwargs, node):
        v = args[0]
        if isinstance(v.ty, TRef):
            cs = self.cspec(v.ty.cls)
            if cs is not None and not cs.record:
                if extract.find_method(cs.module, cs.name, "__bool__"):
                    return self.call_method(v, "__bool__", [], {}, node)
                if extract.find_method(cs.module, cs.name, "__len__"):
                    n = self.call_method(v, "__len__", [], {}, node)
                    return vbool(n.t != 0)
            return vbool(True)
        return vbool(truthy(v))

    def bi_abs(self, args, kwargs, node):
        v = args[0]
        if v.ty == INT:
            return vint(z3.If(v.t >= 0, v.t, -v.t))
        if v.ty == FLOAT:
            X = XR()
            return Val(FLOAT, z3.If(X.is_Fin(v.t), X.Fin(z3.If(X.r(v.t) >= 0, X.r(v.t), -X.r(v.t))), X.PInf))
        raise Unsupported("abs of %s" % v.ty)

    def bi_float(self, args, kwargs, node):
        v = args[0]
        if v.ty == STR:
            s = z3.simplify(v.t)
            if z3.is_string_value(s):
                return vfloat(float(s.as_string()))
            raise Unsupported("float(str)")
        if v.ty in (INT, FLOAT, BOOL):
            if v.ty == INT and self.float_rounding:
                lim = z3.IntVal(2 ** 1024)
                self.safety(z3.And(v.t < lim, v.t > -lim), "OverflowError", "float-of-int", node)
                return to_float(v, exact=False)
            return to_float(v)
        return self.float_other(v, node)

    def float_other(self, v, node):
        if v.ty == TERM:
            return self.term_to_float(v, node)
        raise Unsupported("float(%s)" % v.ty)

    def bi_type(self, args, kwargs, node):
        v = args[0]
        if v.ty == TERM:
            k = self.term_kind(v)
            name = {"VNone": "NoneType", "VInt": "int", "VNamed": "Var", "CInt": "Constant", "CFloat": "Constant",
                    "CStr": "Constant"}.get(k)
            if name is None:
                name = "Term"       # some Term subclass; only compared against int/NoneType/Constant/Var here
            return Val(TType(), None, ("pytype", name))
        name = {"Int": "int", "Float": "float", "Str": "str", "Bool": "bool", "None": "NoneType"}.get(v.ty.name)
        if name is None:
            if isinstance(v.ty, TList):
                name = "list"
            elif isinstance(v.ty, TTuple):
                name = "tuple"
            else:
                raise Unsupported("type() of %s" % v.ty)
        return Val(TType(), None, ("pytype", name))

    def bi_int(self, args, kwargs, node):
        v = args[0]
        if v.ty == INT:
            return v
        if v.ty == BOOL:
            return coerce(v, INT)
        if v.ty == FLOAT:
            X = XR()
            self.safety(X.is_Fin(v.t), "OverflowError", "int-of-inf", node)
            r = X.r(v.t)
            return vint(z3.If(r >= 0, z3.ToInt(r), -z3.ToInt(-r)))
        return self.int_other(v, node)

    def int_other(self, v, node):
        raise Unsupported("int(%s)" % v.ty)

    def bi_str(self, args, kwargs, node):
        v = args[0]
        if v.ty == STR:
            return v
        if v.ty == INT:
            return vstr(z3.If(v.t >= 0, z3.IntToStr(v.t), z3.Concat(z3.StringVal("-"), z3.IntToStr(-v.t))))
        return self.str_other(v, node)

    def str_other(self, v, node):
        if v.ty == TERM:
            return self.term_str(v, node)
        return self.ctx.fresh("str", STR)

    def bi_repr(self, args, kwargs, node):
        return self.ctx.fresh("repr", STR)

    def bi_min(self, args, kwargs, node):
        return self.minmax(args, True, node)

    def bi_max(self, args, kwargs, node):
        return self.minmax(args, False, node)

    def minmax(self, args, is_min, node):
        if len(args) != 2:
            raise Unsupported("min/max arity")
        a, b = args
        c = self.order("<", b, a, node) if is_min else self.order(">", b, a, node)
        if a.ty != b.ty:
            if self.spec_mode:
                raise Unsupported("mixed min/max in spec")
            return b if self.ctx.decide(c) else a
        return self.ite(c, b, a)

    def bi_range(self, args, kwargs, node):
        if len(args) == 1:
            lo, hi = z3.IntVal(0), args[0].t
        elif len(args) == 2:
            lo, hi = args[0].t, args[1].t
        else:
            raise Unsupported("range step")
        n = z3.If(hi > lo, hi - lo, z3.IntVal(0))
        res = self.ctx.fresh("range", TList(INT))
        i = z3.Int("rgi!%d" % self.bound_counter())
        self.ctx.assume(list_len(res) == n)
        self.ctx.assume(z3.ForAll([i], z3.Implies(z3.And(0 <= i, i < n), z3.Select(list_arr(res), i) == lo + i)))
        return res

    def bi_list(self, args, kwargs, node):
        if not args:
            return self.empty_list(NONE)
        v = args[0]
        if isinstance(v.ty, TList):
            return v
        if isinstance(v.ty, TRef):
            return self.call_method(v, "__iter__", [], {}, node)
        raise Unsupported("list(%s)" % v.ty)

    def bi_set(self, args, kwargs, node):
        if not args:
            return Val(TSet(NONE), z3.K(sort(NONE), z3.BoolVal(False)))
        raise Unsupported("set(iterable)")

    def bi_tuple(self, args, kwargs, node):
        return self.bi_list(args, kwargs, node)

    def bi_id(self, args, kwargs, node):
        v = args[0]
        if isinstance(v.ty, TRef):
            f = z3.Function("id_of", Ref, z3.IntSort())
            return vint(f(v.t))
        return self.id_other(v, node)

    def id_other(self, v, node):
        raise Unsupported("id(%s)" % v.ty)

    def bi_bin(self, args, kwargs, node):
        return Val(TAbs("BinStr"), z3.Function("bin_of", z3.IntSort(), sort(TAbs("BinStr")))(args[0].t))

    def abs_attr(self, obj, attr, node):
        if obj.ty.name == "BinStr" and attr == "count":
            return Val(TFun(), None, ("spec", "__bincount", obj))
        raise Unsupported("attribute %s of abstract %s" % (attr, obj.ty))

    # math on extended reals, via uninterpreted real functions with ground axiom instantiation
    def _real_fun(self, name):
        return z3.Function(name, z3.RealSort(), z3.RealSort())

    def bi_math_exp(self, args, kwargs, node):
        x = to_float(args[0]).t
        X = XR()
        e = self._real_fun("exp_r")
        return Val(FLOAT, z3.If(X.is_Fin(x), X.Fin(e(X.r(x))), z3.If(X.is_NInf(x), X.Fin(z3.RealVal(0)), X.PInf)))

    def bi_math_log(self, args, kwargs, node):
        if len(args) != 1:
            raise Unsupported("log with base")
        x = to_float(args[0]).t
        X = XR()
        self.safety(z3.Or(X.is_PInf(x), z3.And(X.is_Fin(x), X.r(x) > 0)), "ValueError", "log-domain", node)
        l = self._real_fun("log_r")
        return Val(FLOAT, z3.If(X.is_Fin(x), X.Fin(l(X.r(x))), X.PInf))

    def bi_math_log1p(self, args, kwargs, node):
        x = to_float(args[0]).t
        X = XR()
        self.safety(z3.Or(X.is_PInf(x), z3.And(X.is_Fin(x), X.r(x) > -1)), "ValueError", "log1p-domain", node)
        l = self._real_fun("log_r")
        return Val(FLOAT, z3.If(X.is_Fin(x), X.Fin(l(1 + X.r(x))), X.PInf))

    def bi_math_isinf(self, args, kwargs, node):
        return vbool(z3.Not(XR().is_Fin(to_float(args[0]).t)))

    def bi_math_isnan(self, args, kwargs, node):
        return vbool(False)

    # ------------------------------------------------------------ container methods
    def container_method(self, obj, meth, objnode, args, kwargs, node):
        t = obj.ty
        p = self.lvalue_path(objnode) if (objnode is not None and not self.spec_mode) else None

        def update(new):
            if p is None:
                raise Unsupported("mutation of a temporary container")
            self.write_path(p, new)
        if isinstance(t, TList):
            if meth == "append":
                x = args[0]
                if t.t == NONE:
                    nt = TList(x.ty if not (isinstance(x.ty, TTuple)) else TTuple(x.ty.items))
                    arr = z3.K(z3.IntSort(), term_of(coerce(x, nt.t)))
                    update(mk_list(nt, z3.IntVal(1), arr))
                    return VNONE
                n = list_len(obj)
                update(mk_list(t, n + 1, z3.Store(list_arr(obj), n, term_of(coerce(x, t.t)))))
                return VNONE
            if meth == "extend":
                other = args[0]
                if isinstance(other.ty, TRef):
                    other = self.call_method(other, "__iter__", [], {}, node)
                update(self.list_concat(obj, other))
                return VNONE
            if meth == "pop":
                n = list_len(obj)
                if args:
                    k = self.const_int(args[0])
                    if k == -1:
                        pass
                    elif k == 0:
                        self.safety(n > 0, "IndexError", "pop-empty", node)
                        res = self.ctx.fresh("popped", t)
                        i = z3.Int("ppi!%d" % self.bound_counter())
                        self.ctx.assume(list_len(res) == n - 1)
                        self.ctx.assume(z3.ForAll([i], z3.Implies(z3.And(0 <= i, i < n - 1),
                                                                  z3.Select(list_arr(res), i) == z3.Select(list_arr(obj), i + 1))))
                        update(res)
                        return Val(t.t, z3.Select(list_arr(obj), 0))
                    else:
                        raise Unsupported("list.pop(i)")
                self.safety(n > 0, "IndexError", "pop-empty", node)
                update(mk_list(t, n - 1, list_arr(obj)))
                return Val(t.t, z3.Select(list_arr(obj), n - 1))
            if meth == "count" and self.spec_mode:
                raise Unsupported("list.count")
            if meth == "index":
                raise Unsupported("list.index")
        if isinstance(t, TDict):
            if obj.py == "emptydict":
                raise Unsupported("method on untyped dict literal")
            if meth == "get":
                k = term_of(coerce(args[0], t.k))
                ot = TOpt(t.v) if not isinstance(t.v, TOpt) else t.v
                present = z3.Select(dict_dom(obj), k)
                val = Val(t.v, z3.Select(dict_map(obj), k))
                if len(args) > 1:
                    return self.ite(present, val, args[1])
                if isinstance(t.v, TOpt):
                    return Val(ot, z3.If(present, val.t, opt_none(ot).t))
                return Val(ot, z3.If(present, opt_some(ot, val).t, opt_none(ot).t))
            if meth == "pop":
                k = term_of(coerce(args[0], t.k))
                present = z3.Select(dict_dom(obj), k)
                if len(args) == 1:
                    self.safety(present, "KeyError", "dict-pop", node)
                    val = Val(t.v, z3.Select(dict_map(obj), k))
                    update(mk_dict(t, dict_size(obj) - 1, z3.Store(dict_dom(obj), k, z3.BoolVal(False)), dict_map(obj)))
                    return val
                raise Unsupported("dict.pop with default")
            if meth == "keys" or meth == "values" or meth == "items":
                raise Unsupported("dict.%s (iteration order)" % meth)
        if t == STR:
            return self.str_method(obj, meth, args, kwargs, node)
        raise Unsupported("method %s of %s" % (meth, t))

    # ------------------------------------------------------------ repo calls
    def all_fnspecs(self):
        out = list(self.spec.fns.values())
        for inc in self.spec.includes:
            out.extend(inc.fns.values())
        return out

    def find_fnspec(self, modname, clsname, fname):
        path = (clsname + "." + fname) if clsname else fname
        for fs in self.all_fnspecs():
            if fs.path == path and (fs.module == modname or modname is None):
                return fs
        return None

    def push_frame(self, modname, clsname, fname, spec):
        fr = Frame(modname, clsname, fname, spec)
        fr.current_exc = None
        self.frames.append(fr)
        return fr

    def call_method(self, obj, meth, args, kwargs, node, static_cls=None):
        t = obj.ty
        if not isinstance(t, TRef):
            if isinstance(t, TOpt) and isinstance(t.t, TRef):
                self.safety(z3.Not(opt_is_none(obj)), "AttributeError", "none-call", node)
                return self.call_method(opt_val(obj), meth, args, kwargs, node)
            raise Unsupported("method %s on %s" % (meth, t))
        cs = self.cspec(t.cls)
        if cs is None or cs.record:
            raise Unsupported("method %s on class %s without a class spec" % (meth, t.cls))
        if static_cls is not None:
            r = extract.find_method(static_cls[0], static_cls[1], meth)
        else:
            r = extract.find_method(cs.module, cs.name, meth)
        if r is None:
            mix = self.stdlib_mixins.get(cs.qual, {})
            if meth in mix:
                return self.call_function(None, cs.name, meth, mix[meth], [obj] + args, kwargs, node, owner=cs.name,
                                          mixin=True)
            raise Unsupported("no method %s in %s" % (meth, t.cls))
        mi, cd, fdef = r
        return self.call_function(mi.name, cd.name, meth, fdef, [obj] + args, kwargs, node, owner=cs.name)

    def call_function(self, modname, clsname, fname, fdef, args, kwargs, node, owner=None, mixin=False):
        if fdef is None:
            mi = extract.load_module(modname)
            fdef = mi.functions[fname]
        # contract lookup: by defining class first, then by the static class of the receiver
        spec = self.find_fnspec(modname, clsname, fname)
        if spec is None and owner is not None and owner != clsname:
            spec = self.find_fnspec(None, owner, fname)
        if spec is not None and not spec.inline:
            return self.call_modular(spec, modname, clsname, fname, fdef, args, kwargs, node)
        if spec is None and not self.auto_inline:
            raise Unsupported("call to %s.%s which has no contract" % (clsname or modname, fname))
        return self.call_inline(spec, modname, clsname if not mixin else owner, fname, fdef, args, kwargs, node)

    def bind_params(self, fdef, args, kwargs, node):
        a = fdef.args
        if a.vararg:
            raise Unsupported("*args in callee")
        names = [x.arg for x in a.args]
        out = {}
        if a.kwarg:
            out[a.kwarg.arg] = Val(TType(), None, ("kwargs",))
            kwargs = dict((k, v) for k, v in kwargs.items() if k in names or k in [x.arg for x in a.kwonlyargs])
        for n, v in zip(names, args):
            out[n] = v
        if len(args) > len(names):
            raise Unsupported("too many args")
        defaults = a.defaults
        dnames = names[len(names) - len(defaults):]
        for n, v in kwargs.items():
            out[n] = v
        for n, d in zip(dnames, defaults):
            if n not in out:
                out[n] = self.ev(d)
        for kw, d in zip(a.kwonlyargs, a.kw_defaults):
            if kw.arg not in out:
                if d is None:
                    raise Unsupported("missing kw-only")
                out[kw.arg] = self.ev(d)
        for n in names:
            if n not in out:
                raise Unsupported("missing argument %s" % n)
        return names + [k.arg for k in a.kwonlyargs], out

    def call_inline(self, spec, modname, clsname, fname, fdef, args, kwargs, node):
        if len(self.frames) > 12:
            raise Unsupported("inline depth (recursion without a contract?)")
        names, binding = self.bind_params(fdef, args, kwargs, node)
        fr = self.push_frame(modname, clsname, fname, spec)
        fr.inlined = True
        fr.locals = binding
        fr.param_names = []
        # aliasing of caller containers through parameters is not modelled: forbid mutation
        fr.param_names = [n for n in names if isinstance(binding[n].ty, (TList, TDict, TSet))]
        fr.entry_locals = dict(binding)
        fr.entry_heap = self.ctx.snapshot()
        if spec is not None and spec.yields:
            yt = self.ty(spec.yields)
            fr.yielded = mk_list(yt, z3.IntVal(0), list_arr(self.ctx.fresh("yield0", yt)))
        body, _ = extract.strip_docstring(fdef.body)
        self.number_sites(fdef)
        self.inlined_fns.add("%s:%s" % (modname, (clsname + "." if clsname else "") + fname))
        try:
            try:
                self.run_block(body)
                res = VNONE
            except ReturnSignal as r:
                res = r.val
            if fr.yielded is not None:
                res = fr.yielded
            return res
        finally:
            self.frames.pop()

    def number_sites(self, fdef):
        if id(fdef) in self._numbered:
            return
        self._numbered.add(id(fdef))
        for i, n in enumerate(ast.walk(fdef)):
            self.site_ids[id(n)] = i

    def param_type(self, spec, name, clsname):
        if name in spec.types:
            return self.ty(spec.types[name])
        if name == "self" and clsname:
            return TRef(clsname)
        return None

    def call_modular(self, spec, modname, clsname, fname, fdef, args, kwargs, node):
        names, binding = self.bind_params(fdef, args, kwargs, node)
        caller = self.fr
        fr = self.push_frame(spec.module, spec.clsname, fname, spec)
        fr.inlined = True     # exceptions escaping are judged against the *caller's* contract
        try:
            for n in names:
                pt = self.param_type(spec, n, spec.clsname)
                v = binding[n]
                if pt is not None:
                    if v.py == "emptydict" and isinstance(pt, TDict):
                        v = self.empty_dict(pt)
                    if isinstance(v.ty, TOpt) and v.ty.t == pt and not self.spec_mode:
                        # the contract types the parameter as non-None: the caller must establish it
                        self.ctx.oblige(z3.Not(opt_is_none(v)), "%s/call:%s#%d/arg-%s-not-None" % (
                            self.ctx.fnname, spec.path, self.site(node), n), "call-pre", getattr(node, "lineno", 0))
                        v = opt_val(v)
                    v = coerce(v, pt)
                fr.locals[n] = v
            fr.entry_locals = dict(fr.locals)
            label = "%s/call:%s#%d" % (self.ctx.fnname, spec.path, self.site(node))
            if not self.spec_mode:
                for i, r in enumerate(spec.requires):
                    self.ctx.oblige(truthy(self.spec_eval(r)), "%s/pre[%d]" % (label, i), "call-pre",
                                    getattr(node, "lineno", 0))
            fr.entry_heap = self.ctx.snapshot()
            if spec.decreases and not self.spec_mode and getattr(self, "top_spec", None) is spec:
                m = self.spec_eval(spec.decreases).t
                self.ctx.oblige(z3.And(m >= 0, m < self.entry_measure), "%s/decreases" % label, "decreases",
                                getattr(node, "lineno", 0))
            if spec.abstract:
                rty = self.ty(spec.returns)
                f = z3.Function("abs_%s_%s" % (spec.clsname, fname),
                                *([sort(fr.locals[n].ty) for n in names] + [sort(rty)]))
                return Val(rty, f(*[term_of(fr.locals[n]) for n in names]))
            # exceptional exits
            if not self.spec_mode:
                for exc, cond in spec.raises.items():
                    b = z3.Bool("raises_%s_%s!%d" % (fname, exc, self.bound_counter()))
                    can = truthy(self.spec_eval(cond))
                    if self.ctx.decide(z3.And(b, can)):
                        self.require_expected(exc, node)
                        raise RaiseSignal(exc, getattr(node, "lineno", 0))
            # frame: havoc what the callee may modify
            if not spec.pure and not self.spec_mode:
                for m in list(spec.modifies) + ["self." + g for g in spec.ghost_exit
                                                 if "self." + g not in spec.modifies]:
                    self.havoc_modifies(m, spec, fr)
            elif spec.modifies and self.spec_mode:
                raise Unsupported("impure function %s in a specification" % spec.path)
            res = VNONE
            if spec.returns and spec.returns != "None":
                rty = self.ty(spec.returns)
                if spec.pure:
                    # deterministic: a function of the arguments and the heap fields it reads
                    res = self.pure_result(spec, names, fr, rty)
                else:
                    res = self.ctx.fresh("ret_" + fname, rty)
            if spec.yields:
                rty = self.ty(spec.yields)
                res = self.ctx.fresh("ret_" + fname, rty)
            fr.locals["result"] = res
            for e in spec.ensures:
                self.ctx.assume(truthy(self.spec_eval(e)))
            for g, e in spec.ghost_exit.items():
                pass    # ghost_exit values are implied by the ensures of the callee
            return res
        finally:
            self.frames.pop()

    def lemma_fact(self, name):
        """forall params (other than self): requires => ensures, in the current state."""
        lf = self.spec.lemma_fns[name]
        caller = self.fr
        fr = self.push_frame(lf.module, lf.clsname, lf.fname, lf)
        try:
            bvs = []
            c = self.bound_counter()
            for a in lf.src.args.args:
                n = a.arg
                if n == "self":
                    fr.locals["self"] = caller.locals["self"]
                    continue
                t = self.ty(lf.types[n])
                bv = z3.Const("%s!lf%d" % (n, c), sort(t))
                bvs.append(bv)
                fr.locals[n] = Val(t, bv)
            fr.entry_locals = dict(fr.locals)
            fr.entry_heap = self.ctx.snapshot()
            pre = [truthy(self.spec_eval(r)) for r in lf.requires]
            post = [truthy(self.spec_eval(e)) for e in lf.ensures]
            body = z3.Implies(z3.And(*pre) if pre else z3.BoolVal(True), z3.And(*post))
            return z3.ForAll(bvs, body) if bvs else body
        finally:
            self.frames.pop()

    def pure_result(self, spec, names, fr, rty):
        return self.ctx.fresh("ret_" + spec.fname, rty)

    def require_expected(self, exc, node):
        if not self.expected_outer(exc):
            self.ctx.oblige(z3.BoolVal(False), "%s/noexc:%s#%d" % (self.ctx.fnname, exc, self.site(node)),
                            "exception", getattr(node, "lineno", 0))
            raise PathEnd()

    def expected_outer(self, exc):
        frames = self.frames[:-1]
        saved = self.frames
        self.frames = frames
        try:
            return self.expected(exc)
        finally:
            self.frames = saved

    def havoc_modifies(self, m, spec, fr):
        if m.startswith("self."):
            f = self.mangle_for(spec.clsname, m[5:])
            owner = self.field_owner(spec.clsname, f)
            fty = self.field_type(spec.clsname, f)
            if fty is None:
                raise StaleContract("modifies: unknown field %s" % m)
            self.ctx.havoc_field(owner, f, fty, at=fr.locals["self"].t)
            v = self.ctx.read_field(fr.locals["self"].t, owner, f, fty)
            for c in type_invariant(v):
                self.ctx.assume(c)
        else:
            cls, f = m.split(".")
            cs = self.cspec(cls)
            fs = (list(cs.fields) + list(cs.ghost)) if f == "*" else [f]
            for ff in fs:
                self.ctx.havoc_field(cls, ff, self.field_type(cls, ff))

    def construct(self, modname, clsname, args, kwargs, node):
        if modname == "problog.logic" and clsname in ("Term", "Constant", "Var", "Not") \
                and clsname not in self.spec.classes:
            return self.term_construct(clsname, args, kwargs, node)
        if clsname not in self.spec.classes:
            if extract.exc_is_subclass(clsname, "BaseException") or extract.exc_is_subclass(clsname, "Exception"):
                return Val(TType(), None, ("excinst", clsname))
            raise Unsupported("construction of %s (no class spec)" % clsname)
        r = self.ctx.new_ref(clsname)
        init = extract.find_method(modname, clsname, "__init__")
        if init is not None:
            self.call_function(init[0].name, init[1].name, "__init__", init[2], [r] + args, kwargs, node, owner=clsname)
        return r
