"""String methods (z3/cvc5 string theory)."""
import z3
from .types import *
from .values import *
from .state import *


def _q():
    return z3.StringVal("'")


def plain(s):
    n = z3.Length(s)
    return z3.Not(z3.And(n >= 1, z3.Or(z3.SubString(s, 0, 1) == _q(), z3.SubString(s, n - 1, 1) == _q())))


class StrMixin(object):
    def str_method(self, obj, meth, args, kwargs, node):
        s = obj.t
        if meth == "strip" and len(args) == 1:
            c = z3.simplify(args[0].t)
            if z3.is_string_value(c) and len(c.as_string()) == 1:
                # s.strip(c): uninterpreted, pinned down on the two shapes that matter:
                #   no c at either end -> s;  c + body + c with no c at either end of body -> body
                ch = z3.StringVal(c.as_string())
                f = z3.Function("strip_%d" % ord(c.as_string()), z3.StringSort(), z3.StringSort())
                n = z3.Length(s)

                def pl(x):
                    m = z3.Length(x)
                    return z3.Not(z3.And(m >= 1, z3.Or(z3.SubString(x, 0, 1) == ch, z3.SubString(x, m - 1, 1) == ch)))
                body = z3.SubString(s, 1, n - 2)
                self.ctx.assume(z3.Implies(pl(s), f(s) == s))
                self.ctx.assume(z3.Implies(z3.And(n >= 2, z3.SubString(s, 0, 1) == ch, z3.SubString(s, n - 1, 1) == ch,
                                                  pl(body)), f(s) == body))
                self.assumptions.add("str.strip(c) modelled only for strings without c at the ends and for "
                                     "c+body+c with body free of c at its ends (other shapes unconstrained)")
                return vstr(f(s))
        if meth == "format":
            tpl = z3.simplify(s)
            if not z3.is_string_value(tpl):
                raise Unsupported("format with a non-constant template")
            parts = tpl.as_string().split("{}")
            if len(parts) != len(args) + 1 or "{" in "".join(parts) or "}" in "".join(parts):
                return self.ctx.fresh("formatted", STR)       # message formatting: opaque
            pieces = []
            for i, p in enumerate(parts):
                if p:
                    pieces.append(z3.StringVal(p))
                if i < len(args):
                    pieces.append(self.bi_str([args[i]], {}, node).t)
            if not pieces:
                return vstr("")
            return vstr(z3.Concat(*pieces) if len(pieces) > 1 else pieces[0])
        if meth == "startswith" and len(args) == 1 and args[0].ty == STR:
            return vbool(z3.PrefixOf(args[0].t, s))
        if meth == "endswith" and len(args) == 1 and args[0].ty == STR:
            return vbool(z3.SuffixOf(args[0].t, s))
        if meth == "find" and len(args) in (1, 2) and args[0].ty == STR:
            start = args[1].t if len(args) == 2 else z3.IntVal(0)
            return vint(z3.IndexOf(s, args[0].t, start))
        if meth == "replace" and len(args) == 2:
            a = z3.simplify(args[0].t)
            return vstr(self.replace_all(s, args[0].t, args[1].t))
        if meth in ("lower", "upper"):
            f = z3.Function("str_" + meth, z3.StringSort(), z3.StringSort())
            return vstr(f(s))
        if meth in ("isdigit", "isalpha", "isalnum", "islower", "isupper", "isspace"):
            f = z3.Function("str_" + meth, z3.StringSort(), z3.BoolSort())
            return vbool(f(s))
        raise Unsupported("str.%s" % meth)

    def replace_all(self, s, a, b):
        f = getattr(z3, "ReplaceAll", None)
        if f is None:
            raise Unsupported("str.replace (replace_all unavailable)")
        return f(s, a, b)
