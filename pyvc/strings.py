"""String operations (z3/cvc5 string theory)."""
import z3
from .types import *
from .values import *
from .state import *


class StrMixin(object):
    pass
