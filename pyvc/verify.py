"""Driver: explore all paths of each function under contract, collect and discharge obligations."""
import ast
import os
import time
import traceback
import z3
from .types import *
from .values import *
from .state import *
from . import extract
from .symexec import ExprMixin
from .stmts import StmtMixin
from .calls import CallMixin
from .strings import StrMixin
from .termadt import TermMixin
from . import axioms


from .numeric import NumMixin


class Executor(NumMixin, ExprMixin, StmtMixin, CallMixin, StrMixin, TermMixin):
    def __init__(self, spec, ctx):
        self.spec = spec
        self.ctx = ctx
        self.frames = []
        self.spec_mode = 0
        self.in_lemma = False
        self._parse_cache = {}
        self.site_ids = {}
        self._numbered = set()
        self.dropped = set()
        self.assumptions = set()
        self.inlined_fns = set()
        self.at_hits = set()
        self.loops_bound = set()
        self.covered = set()
        self.last_abs_result = {}
        self.global_defs = getattr(spec, "global_defs", {})
        self.spec_funcs = dict(BASE_SPEC_FUNCS)
        from . import termadt as _ta
        self.spec_funcs.update(_ta.SPEC_FUNCS)
        self.spec_funcs.update(getattr(spec, "spec_funcs", {}))
        self.stdlib_mixins = getattr(spec, "stdlib_mixins", {})
        self.auto_inline = getattr(spec, "auto_inline", True)
        self.float_rounding = getattr(spec, "float_rounding", False)
        self.abs_call_result = getattr(spec, "abs_call_result", {})
        for name in getattr(spec, "recfuns", {}):
            self.spec_funcs[name] = self._make_recfun(name)

    def _make_recfun(self, name):
        def call(ex, args, node):
            f, ptys, rty = ex._recfun_decl(name)
            return Val(rty, f(*[term_of(coerce(a, t)) for a, t in zip(args, ptys)]))
        return call

    def _recfun_decl(self, name):
        key = (self.spec.pid, name)
        if key in _RECFUNS:
            return _RECFUNS[key]
        params, returns, body = self.spec.recfuns[name]
        ptys = [self.ty(t) for _, t in params]
        rty = self.ty(returns)
        # declared uninterpreted; the defining equation is instantiated on occurring applications
        f = z3.Function("%s" % name, *([sort(t) for t in ptys] + [sort(rty)]))
        _RECFUNS[key] = (f, ptys, rty)
        consts = [z3.Const("%s!rf_%s" % (n, name), sort(t)) for (n, _), t in zip(params, ptys)]
        fr = self.push_frame(None, None, "<recfun %s>" % name, None)
        for (n, _), t, c in zip(params, ptys, consts):
            fr.locals[n] = Val(t, c)
        self.spec_mode += 1
        try:
            b = coerce(self.ev(self.parse(body)), rty)
        finally:
            self.spec_mode -= 1
            self.frames.pop()
        _RECDEFS[name] = (f, consts, term_of(b))
        return _RECFUNS[key]


_RECFUNS = {}
_RECDEFS = {}


def unfold_recfuns(formulas, rounds=2):
    """Instances f(args) == body[args] of the defining equations of the recursive spec functions,
    for every ground application occurring in `formulas` (and, for `rounds` rounds, in the bodies)."""
    if not _RECDEFS:
        return []
    out, done = [], set()
    cur = list(formulas)
    names = dict((f.name(), (f, consts, body)) for (f, consts, body) in _RECDEFS.values())
    for _ in range(rounds):
        apps = {}
        seen = set()
        todo = list(cur)
        while todo:
            e = todo.pop()
            k = e.get_id()
            if k in seen:
                continue
            seen.add(k)
            if z3.is_quantifier(e):
                todo.append(e.body())
                continue
            if z3.is_app(e):
                if e.decl().name() in names and e.num_args() == names[e.decl().name()][0].arity() \
                        and not axioms._has_var(e):
                    apps[k] = e
                todo.extend(e.children())
        new = []
        for k, e in apps.items():
            if k in done:
                continue
            done.add(k)
            f, consts, body = names[e.decl().name()]
            inst = z3.substitute(body, *[(c, e.arg(i)) for i, c in enumerate(consts)])
            new.append(e == inst)
        if not new:
            break
        out.extend(new)
        cur = new
    return out


class _Dummy(object):
    def __init__(self):
        pass


def _sf_bincount(ex, args, node):
    raise Unsupported("bincount")


def _popcount(ex, args, node):
    f = z3.Function("popcount", z3.IntSort(), z3.IntSort())
    try:
        # axioms of the shared symbol (listed with the assumptions where bin(x).count('1') is used)
        ex.ctx.assume(f(z3.IntVal(0)) == 0)
        ex.ctx.assume(f(args[0].t) >= 0)
    except Exception:       # noqa  (spec functions are also evaluated outside a path context)
        pass
    return vint(f(args[0].t))


def _isfinite(ex, args, node):
    return vbool(XR().is_Fin(to_float(args[0]).t))


def _lastcall(ex, args, node):
    name = z3.simplify(args[0].t).as_string()
    v = ex.last_abs_result.get(name)
    if v is None:
        # no call on this path: an unconstrained value (contracts guard lastcall by the call condition)
        return ex.ctx.fresh("nocall_" + name, ex.ty(ex.abs_call_result[name]))
    return v


def _called(ex, args, node):
    name = z3.simplify(args[0].t).as_string()
    return vbool(name in ex.last_abs_result)


def _unwrap(ex, args, node):
    v = args[0]
    return opt_val(v) if isinstance(v.ty, TOpt) else v


def _store(ex, args, node):
    d, k, v = args
    kt = term_of(coerce(k, d.ty.k))
    had = z3.Select(dict_dom(d), kt)
    return mk_dict(d.ty, z3.If(had, dict_size(d), dict_size(d) + 1), z3.Store(dict_dom(d), kt, z3.BoolVal(True)),
                   z3.Store(dict_map(d), kt, term_of(coerce(v, d.ty.v))))


def _shift_down(ex, args, node):
    """Ghost position map after removing position j: positions above j move down by one."""
    d, j = args
    k = z3.Const("sdk!%d" % ex.bound_counter(), sort(d.ty.k))
    m = dict_map(d)
    newmap = z3.Lambda([k], z3.If(z3.Select(m, k) > j.t, z3.Select(m, k) - 1, z3.Select(m, k)))
    return mk_dict(d.ty, dict_size(d), dict_dom(d), newmap)


def _list_remove(ex, args, node):
    l, j = args
    ln = list_len(l)
    res = ex.ctx.fresh("removed", l.ty)
    i = z3.Int("lri!%d" % ex.bound_counter())
    ri = z3.Select(list_arr(res), i)
    ex.ctx.assume(list_len(res) == ln - 1)
    ex.ctx.assume(z3.ForAll([i], z3.Implies(z3.And(0 <= i, i < ln - 1),
                                            ri == z3.If(i < j.t, z3.Select(list_arr(l), i), z3.Select(list_arr(l), i + 1))),
                            patterns=[ri]))
    return res


def _real(ex, args, node):
    """Exact real value of an int (specifications only)."""
    return to_float(args[0], exact=True)


def _allocated(ex, args, node):
    return vbool(z3.Select(ex.ctx.alloc, args[0].t))


BASE_SPEC_FUNCS = {"allocated": _allocated, "real": _real, "popcount": _popcount, "isfinite": _isfinite, "lastcall": _lastcall, "called": _called,
                   "unwrap": _unwrap, "store": _store, "shift_down": _shift_down, "list_remove": _list_remove}


class FnResult(object):
    def __init__(self, qual):
        self.qual = qual
        self.status = "ok"          # ok | undecided | error
        self.reason = None
        self.obligations = []       # dicts
        self.paths = 0
        self.returns = 0
        self.raises = {}
        self.dropped = set()
        self.assumptions = set()
        self.inlined = set()
        self.file = None
        self.line = None
        self.digest = None
        self.seconds = 0.0
        self.notes = set()
        self.unreached = []
        self.vacuous = []


def locate_table_entry(mi, table, key):
    """A lambda stored in a module-level dict literal `table = {key: lambda ...}` (the last duplicate key
    wins, as in Python), wrapped as a function definition.  Non-lambda values are returned as-is."""
    node = mi.assigns.get(table)
    if not isinstance(node, ast.Dict):
        raise StaleContract("table %s is not a dict literal" % table)
    found = None
    for k, v in zip(node.keys, node.values):
        try:
            kv = ast.literal_eval(k)
        except Exception:
            continue
        if kv == key:
            found = v
    # later module-level statements `table[key] = value`
    for st in mi.tree.body:
        if isinstance(st, ast.Assign) and len(st.targets) == 1 and isinstance(st.targets[0], ast.Subscript) \
                and isinstance(st.targets[0].value, ast.Name) and st.targets[0].value.id == table:
            try:
                if ast.literal_eval(st.targets[0].slice) == key:
                    found = st.value
            except Exception:
                pass
    if found is None:
        raise StaleContract("no entry %r in %s" % (key, table))
    return found


def lambda_as_function(lam, name):
    f = ast.FunctionDef(name=name, args=lam.args, body=[ast.Return(value=lam.body)], decorator_list=[],
                        returns=None, type_comment=None)
    ast.copy_location(f, lam)
    ast.copy_location(f.body[0], lam)
    ast.fix_missing_locations(f)
    return f


def locate(spec_fn):
    mi = extract.load_module(spec_fn.module)
    if mi is None:
        raise StaleContract("module %s not found" % spec_fn.module)
    if getattr(spec_fn, "table", None):
        v = locate_table_entry(mi, spec_fn.table[0], spec_fn.table[1])
        if not isinstance(v, ast.Lambda):
            raise StaleContract("table entry %r is not a lambda (%s)" % (spec_fn.table[1], ast.unparse(v)))
        return mi, lambda_as_function(v, spec_fn.fname)
    if spec_fn.clsname:
        r = extract.find_class(spec_fn.module, spec_fn.clsname)
        if r is None:
            raise StaleContract("class %s not found" % spec_fn.clsname)
        for node in r[1].body:
            if isinstance(node, ast.FunctionDef) and node.name == spec_fn.fname:
                return r[0], node
        raise StaleContract("method %s not found" % spec_fn.path)
    if spec_fn.fname in mi.functions:
        return mi, mi.functions[spec_fn.fname]
    raise StaleContract("function %s not found" % spec_fn.path)


MAX_PATHS = 4000


def explore(spec, fs=None, lemma=None):
    """Symbolically execute one function (or lemma harness) along every path."""
    qual = fs.qual if fs is not None else "lemma:" + lemma.name
    res = FnResult(qual)
    t0 = time.time()
    try:
        if fs is not None:
            if getattr(fs, "src", None) is not None:
                fdef = fs.src
                res.file, res.line, res.digest = "contracts/%s (ghost lemma)" % spec.pid, 0, extract.fn_digest(fdef)
                modname, clsname, fname = fs.module, fs.clsname, fs.fname
            else:
                mi, fdef = locate(fs)
                res.file, res.line, res.digest = os.path.relpath(mi.path, extract.REPO), fdef.lineno, extract.fn_digest(fdef)
                modname, clsname, fname = mi.name, fs.clsname, fs.fname
        else:
            fdef = lemma.src
            modname, clsname, fname = lemma.module_hint, None, lemma.name
            res.file, res.line, res.digest = "contracts/%s" % spec.pid, 0, extract.fn_digest(fdef)
        seen = {}
        stack = [[]]
        loops_bound = set()
        at_hits = set()
        covered = set()
        while stack:
            trace = stack.pop()
            res.paths += 1
            if res.paths > MAX_PATHS:
                raise Unsupported("path explosion (> %d paths)" % MAX_PATHS)
            ctx = Ctx(trace, fs.path if fs is not None else lemma.name)
            ex = Executor(spec, ctx)
            ex.in_lemma = lemma is not None
            try:
                run_path(ex, ctx, spec, fs, lemma, fdef, modname, clsname, fname, res)
            except PathEnd:
                pass
            stack.extend(ctx.pending)
            res.dropped |= ex.dropped
            res.assumptions |= ex.assumptions
            res.inlined |= ex.inlined_fns
            res.notes |= ctx.notes
            loops_bound |= ex.loops_bound
            at_hits |= ex.at_hits
            covered |= ex.covered
            for ob in ctx.obligations:
                if ob.pc is None:
                    k = ob.name + "|trivial"
                    if k not in seen:
                        seen[k] = dict(name=ob.name, kind=ob.kind, line=ob.line, path=ob.path, trivial=True, ob=None)
                    continue
                k = ob.key()
                if k not in seen:
                    seen[k] = dict(name=ob.name, kind=ob.kind, line=ob.line, path=ob.path, trivial=False, ob=ob)
        if fs is not None:
            for k in fs.loops:
                if (fs.fname, k) not in loops_bound:
                    raise StaleContract("loop contract #%d of %s binds to no loop" % (k, fs.path))
            for snippet, _ in fs.at:
                if snippet not in at_hits:
                    raise StaleContract("ghost assertion anchor %r matches no statement of %s" % (snippet, fs.path))
        # vacuity guard: every statement of the function must be reached on some feasible path
        # under the contract's precondition (a dead branch means the contract silently excludes
        # behaviour); exceptions are listed explicitly in the contract (dead_ok)
        body, _ = extract.strip_docstring(fdef.body)
        dead_ok = getattr(fs, "dead_ok", []) if fs is not None else []
        for st in body:
            for n in ast.walk(st):
                if isinstance(n, ast.stmt) and id(n) not in covered and not isinstance(n, (ast.FunctionDef, ast.ClassDef)):
                    text = ast.unparse(n).splitlines()[0][:80]
                    if isinstance(n, (ast.Pass,)) or any(s in text for s in dead_ok):
                        continue
                    if isinstance(n, ast.Expr) and isinstance(n.value, ast.Constant):
                        continue
                    res.unreached.append("line %d: %s" % (getattr(n, "lineno", 0), text))
        res.obligations = list(seen.values())
    except StaleContract as e:
        res.status, res.reason = "undecided", "stale-contract: %s" % e
    except Unsupported as e:
        res.status, res.reason = "undecided", "outside-subset: %s" % e
    except z3.Z3Exception as e:
        res.status, res.reason = "error", "z3: %s\n%s" % (e, traceback.format_exc())
    except Exception as e:
        res.status, res.reason = "error", "%s: %s\n%s" % (type(e).__name__, e, traceback.format_exc())
    res.seconds = time.time() - t0
    return res


def run_path(ex, ctx, spec, fs, lemma, fdef, modname, clsname, fname, res):
    fr = ex.push_frame(modname, clsname, fname, fs)
    ex.number_sites(fdef)
    a = fdef.args
    if a.vararg:
        raise Unsupported("*args in verified function")
    if a.kwarg:
        # **k: an opaque dictionary; any use of it in the body is outside the subset
        fr.locals[a.kwarg.arg] = Val(TType(), None, ("kwargs",))
        ex.dropped.add("**%s of %s: opaque, unused" % (a.kwarg.arg, fname))
    names = [x.arg for x in a.args] + [x.arg for x in a.kwonlyargs]
    types = fs.types if fs is not None else lemma.types
    for n in names:
        if n in types:
            t = ex.ty(types[n])
        elif n == "self" and clsname:
            t = TRef(clsname)
        else:
            raise StaleContract("parameter %s of %s has no declared type" % (n, fname))
        v = ctx.fresh(n, t)
        fr.locals[n] = v
        ctx.inputs.append((n, v))
        if isinstance(t, TRef):
            ctx.assume(z3.Select(ctx.alloc, v.t))
            ctx.assume(v.t != NULLREF)
    fr.param_names = [n for n in names if isinstance(fr.locals[n].ty, (TList, TDict, TSet))]
    fr.entry_locals = dict(fr.locals)
    if fs is not None:
        for r in fs.requires:
            ctx.assume(truthy(ex.spec_eval(r)))
        if fs.yields:
            yt = ex.ty(fs.yields)
            fr.yielded = mk_list(yt, z3.IntVal(0), list_arr(ctx.fresh("yield0", yt)))
        if fs.decreases:
            ex.entry_measure = ex.spec_eval(fs.decreases).t
            ex.top_spec = fs
        for u in fs.use:
            ctx.assume(ex.lemma_fact(u))
    fr.entry_heap = ctx.snapshot()
    # remember the input heap for replay
    body, _ = extract.strip_docstring(fdef.body)
    try:
        ex.run_block(body)
        ret = VNONE
    except ReturnSignal as r:
        ret = r.val
    except RaiseSignal as sig:
        res.raises[sig.exc] = res.raises.get(sig.exc, 0) + 1
        chk = z3.Solver()
        chk.set("timeout", 3000)
        for h in ctx.pc:
            chk.add(h)
        if chk.check() == z3.unsat:
            res.vacuous.append("path %s reaches `raise %s` with contradictory assumptions" % (ctx.path_id(), sig.exc))
        if lemma is not None:
            ctx.oblige(z3.BoolVal(False), "%s/noexc:%s" % (fname, sig.exc), "exception", sig.line)
            return
        matched = None
        for h in fs.raises:
            if extract.exc_is_subclass(sig.exc, h):
                matched = h
                break
        if matched is None:
            ctx.oblige(z3.BoolVal(False), "%s/noexc:%s@%d" % (fs.path, sig.exc, sig.line), "exception", sig.line)
        else:
            cond = ex.eval_old(ex.parse(fs.raises[matched]))
            ctx.oblige(truthy(cond), "%s/raises[%s]" % (fs.path, matched), "exc-post", sig.line)
        return
    res.returns += 1
    # vacuity guard: the assumptions collected along a returning path must be satisfiable
    # (a contradictory callee contract or precondition would make every obligation pass)
    chk = z3.Solver()
    chk.set("timeout", 3000)
    for h in ctx.pc:
        chk.add(h)
    if chk.check() == z3.unsat:
        res.vacuous.append("path %s reaches a return with contradictory assumptions" % ctx.path_id())
    if lemma is not None:
        return
    if fr.yielded is not None:
        ret = fr.yielded
    if fs.returns and fs.returns != "None":
        rt = ex.ty(fs.returns)
        if fs.strict_return and ret.ty != rt:
            ctx.oblige(z3.BoolVal(False), "%s/return-type(expected %s, got %s)" % (fs.path, rt, ret.ty), "post", 0)
            return
        try:
            ret = coerce(ret, rt)
        except Unsupported:
            ctx.oblige(z3.BoolVal(False), "%s/return-type(%s, got %s)" % (fs.path, rt, ret.ty), "post", 0)
            return
    elif fs.yields:
        pass
    fr.locals["result"] = ret
    fr.alias.pop("result", None)
    # in postconditions a parameter name denotes the argument value (the body may have rebound it);
    # container parameters denote their current contents
    for n, v in fr.entry_locals.items():
        if not isinstance(v.ty, (TList, TDict, TSet)):
            fr.locals[n] = v
            fr.alias.pop(n, None)
    for g, e in fs.ghost_exit.items():
        v = ex.spec_eval(e)
        selfv = fr.entry_locals["self"]
        ctx.write_field(selfv.t, ex.field_owner(clsname, g), g, ex.field_type(clsname, g), v)
    for u in fs.use:
        ctx.assume(ex.lemma_fact(u))
    for i, e in enumerate(fs.ensures):
        ex.spec_eval_oblige(e, "post[%d]" % i, "post")


# ---------------------------------------------------------------- discharge
Z3_TIMEOUT_MS = int(os.environ.get("PYVC_Z3_TIMEOUT_MS", "10000"))
CVC5_TIMEOUT_MS = int(os.environ.get("PYVC_CVC5_TIMEOUT_MS", "15000"))


def model_to_dict(m, inputs, ctx_extra=None):
    out = {}
    for n, v in inputs:
        try:
            out[n] = str(m.eval(term_of(v), model_completion=True))
        except Exception:
            out[n] = "?"
    return out


def guarded_check(s, extra_ms=3000):
    """solver.check() with a watchdog: z3 occasionally overruns its own timeout."""
    import threading
    # the closure must not keep the solver alive: a z3 object released from the timer thread
    # corrupts z3's reference counts (observed segfaults); the main context is never released
    c = z3.main_ctx()
    t = threading.Timer((Z3_TIMEOUT_MS + extra_ms) / 1000.0, lambda: c.interrupt())
    t.daemon = True
    t.start()
    try:
        return s.check()
    except z3.Z3Exception:
        return z3.unknown
    finally:
        t.cancel()


def discharge(ob, want_model=True):
    """-> (status, backend, seconds, model or None, smt2 text)"""
    t0 = time.time()
    s = z3.Solver()
    s.set("timeout", Z3_TIMEOUT_MS)
    hyps = list(ob.pc)
    neg = z3.Not(ob.goal)
    unf = unfold_recfuns(hyps + [neg])
    ax = axioms.instantiate(hyps + [neg] + unf)
    for h in hyps + unf + ax:
        s.add(h)
    s.add(neg)
    r = guarded_check(s)
    dt = time.time() - t0
    if r == z3.unsat:
        return "unsat", "z3", dt, None, None
    if r == z3.sat:
        m = s.model()
        return "sat", "z3", dt, m, s.to_smt2()
    smt2 = s.to_smt2()
    st, dt2 = cvc5_check(smt2)
    if st == "unsat":
        return "unsat", "cvc5", dt + dt2, None, None
    if st == "sat":
        return "sat", "cvc5", dt + dt2, None, smt2
    return "unknown", "z3+cvc5", dt + dt2, None, smt2


def cvc5_check(smt2, timeout_ms=None):
    import subprocess
    import sys
    import tempfile
    t0 = time.time()
    tl = timeout_ms or CVC5_TIMEOUT_MS
    st = "unknown"
    fd, path = tempfile.mkstemp(suffix=".smt2", prefix="pyvc_")
    try:
        with os.fdopen(fd, "w") as f:
            f.write(smt2)
        p = subprocess.run([sys.executable, "-m", "pyvc.cvc5_runner", path, str(tl)], capture_output=True, text=True,
                           timeout=tl / 1000.0 + 20)
        out = p.stdout.strip().splitlines()
        if out and out[-1] in ("sat", "unsat", "unknown"):
            st = out[-1]
    except Exception:
        st = "unknown"
    finally:
        try:
            os.unlink(path)
        except OSError:
            pass
    return st, time.time() - t0
