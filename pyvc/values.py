"""Symbolic values: (type, z3 term) and the typed operations on them."""
import z3
from .types import *
from . import types as T
from .types import _sanitize


class Unsupported(Exception):
    """Construct outside the supported subset -> UNDECIDED(outside-subset), never a violation."""


class Val(object):
    __slots__ = ("ty", "t", "py")

    def __init__(self, ty, t=None, py=None):
        self.ty = ty
        self.t = t          # z3 term (None for TFun / TType values)
        self.py = py        # python payload for TFun/TType, or list[Val] for a tuple literal

    def __repr__(self):
        return "<%s %s>" % (self.ty, self.t if self.t is not None else self.py)


def vint(t):
    return Val(INT, z3.IntVal(t) if isinstance(t, int) else t)


def vbool(t):
    return Val(BOOL, z3.BoolVal(t) if isinstance(t, bool) else t)


def vstr(t):
    return Val(STR, z3.StringVal(t) if isinstance(t, str) else t)


VNONE = Val(NONE, None)


def _none_term():
    return sort(NONE).None_


def term_of(v):
    if v.ty == NONE:
        return _none_term()
    if isinstance(v.ty, TTuple) and v.t is None:
        s = sort(v.ty)
        return s.constructor(0)(*[term_of(coerce(x, t)) for x, t in zip(v.py, v.ty.items)])
    return v.t


# ---------------------------------------------------------------- floats
def XR():
    return float_sort()


def ffin(r):
    if isinstance(r, (int, float)):
        r = z3.RealVal(repr(float(r)) if isinstance(r, float) else r)
    return XR().Fin(r)


def vfloat(x):
    if isinstance(x, float):
        if x == float("inf"):
            return Val(FLOAT, XR().PInf)
        if x == float("-inf"):
            return Val(FLOAT, XR().NInf)
        import fractions
        fr = fractions.Fraction(x)
        return Val(FLOAT, XR().Fin(z3.RealVal(fr.numerator) / z3.RealVal(fr.denominator)))
    if isinstance(x, int):
        return Val(FLOAT, XR().Fin(z3.RealVal(x)))
    return Val(FLOAT, x)


def f_isfin(x):
    return XR().is_Fin(x)


def f_r(x):
    return XR().r(x)


_fl = z3.Function("fl_round", z3.IntSort(), z3.RealSort())
TWO53 = 2 ** 53


def int_to_real(i, exact=True):
    """float(i).  exact=False models rounding for |i| > 2^53 by an uninterpreted monotone fl."""
    if exact:
        return z3.ToReal(i)
    return z3.If(z3.And(i <= TWO53, i >= -TWO53), z3.ToReal(i), _fl(i))


def to_float(v, exact=True):
    if v.ty == FLOAT:
        return v
    if v.ty == INT:
        return Val(FLOAT, XR().Fin(int_to_real(v.t, exact)))
    if v.ty == BOOL:
        return Val(FLOAT, XR().Fin(z3.If(v.t, z3.RealVal(1), z3.RealVal(0))))
    raise Unsupported("to_float of %s" % v.ty)


def f_arith(op, a, b, nan_cb):
    """a, b: XReal terms.  nan_cb(cond) is told the condition under which the result is well
    defined (no NaN); the result is unconstrained otherwise."""
    X = XR()
    fa, fb = X.is_Fin(a), X.is_Fin(b)
    ra, rb = X.r(a), X.r(b)
    if op == "+":
        nan_cb(z3.Not(z3.Or(z3.And(X.is_NInf(a), X.is_PInf(b)), z3.And(X.is_PInf(a), X.is_NInf(b)))))
        return z3.If(z3.And(fa, fb), X.Fin(ra + rb), z3.If(fa, b, a))
    if op == "-":
        nan_cb(z3.Not(z3.Or(z3.And(X.is_NInf(a), X.is_NInf(b)), z3.And(X.is_PInf(a), X.is_PInf(b)))))
        negb = z3.If(X.is_NInf(b), X.PInf, X.NInf)
        return z3.If(z3.And(fa, fb), X.Fin(ra - rb), z3.If(fa, negb, a))
    if op == "*":
        zero_a = z3.And(fa, ra == 0)
        zero_b = z3.And(fb, rb == 0)
        nan_cb(z3.Not(z3.Or(z3.And(zero_a, z3.Not(fb)), z3.And(zero_b, z3.Not(fa)))))
        sa = z3.If(fa, ra > 0, X.is_PInf(a))
        sb = z3.If(fb, rb > 0, X.is_PInf(b))
        return z3.If(z3.And(fa, fb), X.Fin(ra * rb), z3.If(sa == sb, X.PInf, X.NInf))
    if op == "/":
        # caller has already emitted the ZeroDivisionError check for rb == 0
        nan_cb(z3.Not(z3.And(z3.Not(fa), z3.Not(fb))))
        sa = z3.If(fa, ra > 0, X.is_PInf(a))
        return z3.If(z3.And(fa, fb), X.Fin(ra / rb),
                     z3.If(fa, X.Fin(z3.RealVal(0)),
                           z3.If(sa == (rb > 0), X.PInf, X.NInf)))
    raise Unsupported("float op " + op)


def f_cmp(op, a, b):
    X = XR()
    fa, fb = X.is_Fin(a), X.is_Fin(b)
    ra, rb = X.r(a), X.r(b)
    lt = z3.If(z3.And(fa, fb), ra < rb,
               z3.Or(z3.And(X.is_NInf(a), z3.Not(X.is_NInf(b))), z3.And(X.is_PInf(b), z3.Not(X.is_PInf(a)))))
    eq = a == b
    if op == "<":
        return lt
    if op == "<=":
        return z3.Or(lt, eq)
    if op == ">":
        return z3.And(z3.Not(lt), z3.Not(eq))
    if op == ">=":
        return z3.Not(lt)
    if op == "==":
        return eq
    if op == "!=":
        return z3.Not(eq)
    raise Unsupported(op)


# ---------------------------------------------------------------- composite helpers
def mk_tuple(items):
    ty = TTuple([x.ty for x in items])
    return Val(ty, None, list(items))


def tuple_items(v):
    if v.py is not None:
        return v.py
    s = sort(v.ty)
    return [wrap(t, s.accessor(0, i)(v.t)) for i, t in enumerate(v.ty.items)]


def wrap(ty, term):
    return Val(ty, term)


def opt_some(ty, v):
    s = sort(ty)
    return Val(ty, s.constructor(1)(term_of(coerce(v, ty.t))))


def opt_none(ty):
    return Val(ty, sort(ty).constructor(0)())


def opt_is_none(v):
    return sort(v.ty).recognizer(0)(v.t)


def opt_val(v):
    return Val(v.ty.t, sort(v.ty).accessor(1, 0)(v.t))


def list_len(v):
    return sort(v.ty).accessor(0, 0)(v.t)


def list_arr(v):
    return sort(v.ty).accessor(0, 1)(v.t)


def mk_list(ty, ln, arr):
    return Val(ty, sort(ty).constructor(0)(ln, arr))


def dict_size(v):
    return sort(v.ty).accessor(0, 0)(v.t)


def dict_dom(v):
    return sort(v.ty).accessor(0, 1)(v.t)


def dict_map(v):
    return sort(v.ty).accessor(0, 2)(v.t)


def mk_dict(ty, size, dom, mp):
    return Val(ty, sort(ty).constructor(0)(size, dom, mp))


def mk_set(ty, dom):
    return Val(ty, dom)


def set_card(v):
    f = z3.Function("card_" + v.ty.k.name, sort(v.ty), z3.IntSort())
    return f(v.t)


def empty_set(ty):
    return Val(ty, z3.K(sort(ty.k), z3.BoolVal(False)))


def coerce(v, ty):
    """Coerce value v to type ty (None -> Opt, T -> Opt[T], Int -> Float, tuple componentwise)."""
    if v.ty == ty:
        if isinstance(ty, TTuple) and v.t is None:
            return Val(ty, term_of(v))
        return v
    if isinstance(ty, TOpt):
        if v.ty == NONE:
            return opt_none(ty)
        return opt_some(ty, coerce(v, ty.t))
    if ty == FLOAT and v.ty in (INT, BOOL):
        return to_float(v)
    if ty == INT and v.ty == BOOL:
        return Val(INT, z3.If(v.t, z3.IntVal(1), z3.IntVal(0)))
    if isinstance(ty, TTuple) and isinstance(v.ty, TTuple) and len(ty.items) == len(v.ty.items):
        items = [coerce(x, t) for x, t in zip(tuple_items(v), ty.items)]
        return Val(ty, sort(ty).constructor(0)(*[term_of(x) for x in items]))
    if isinstance(ty, TRef) and isinstance(v.ty, TRef):
        return Val(ty, v.t)      # subclass / record views share the Ref sort
    if isinstance(ty, TList) and isinstance(v.ty, TList) and v.ty.t == NONE:
        return Val(ty, sort(ty).constructor(0)(z3.IntVal(0), z3.K(z3.IntSort(), z3.Const("dflt_" + _sanitize(ty.t.name), sort(ty.t)))))
    if isinstance(ty, TSet) and isinstance(v.ty, TSet) and v.ty.k == NONE:
        return empty_set(ty)
    if isinstance(ty, TAbs) and isinstance(v.ty, TFun) and v.py and v.py[0] == "bound":
        # a bound method stored as an opaque callback: one abstract constant per (class, method) name
        return Val(ty, z3.Const("callback_%s_%s" % (_sanitize(str(v.py[2])), _sanitize(str(v.py[3]))), sort(ty)))
    raise Unsupported("cannot coerce %s to %s" % (v.ty, ty))


def type_invariant(v):
    """Facts that hold of every Python value of this type (assumed for fresh symbols)."""
    ty = v.ty
    out = []
    if isinstance(ty, TList):
        out.append(list_len(v) >= 0)
    elif isinstance(ty, (TDict,)):
        out.append(dict_size(v) >= 0)
    elif isinstance(ty, TTuple):
        for x in tuple_items(v):
            out.extend(type_invariant(x))
    elif isinstance(ty, TOpt):
        inner = type_invariant(opt_val(v))
        out.extend(z3.Implies(z3.Not(opt_is_none(v)), c) for c in inner)
    elif isinstance(ty, TStr):
        pass
    return out


def truthy(v):
    ty = v.ty
    if ty == BOOL:
        return v.t
    if ty == INT:
        return v.t != 0
    if ty == FLOAT:
        return v.t != ffin(0)
    if ty == NONE:
        return z3.BoolVal(False)
    if ty == STR:
        return z3.Length(v.t) != 0
    if isinstance(ty, TList):
        return list_len(v) != 0
    if isinstance(ty, TDict):
        return dict_size(v) != 0
    if isinstance(ty, TSet):
        return v.t != empty_set(ty).t
    if isinstance(ty, TOpt):
        return z3.And(z3.Not(opt_is_none(v)), truthy(opt_val(v)))
    if isinstance(ty, TTuple):
        return z3.BoolVal(len(ty.items) != 0)
    if isinstance(ty, (TFun, TMethodRef, TType)):
        return z3.BoolVal(True)
    raise Unsupported("truthiness of %s" % ty)
