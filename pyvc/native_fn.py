"""Native evaluation of a function contract on concrete inputs (replay, bounded stand-ins, audit)."""
import ast
import copy
import importlib
import math

from pyvc import native as N


def find_spec(mod, qual):
    S = mod.S
    if qual in S.fns:
        return S.fns[qual]
    for inc in S.includes:
        if qual in inc.fns:
            return inc.fns[qual]
    return None


class Expander(ast.NodeTransformer):
    def __init__(self, defs, clsname):
        self.defs, self.clsname = defs, clsname
        self.depth = 0

    def visit_Name(self, node):
        if node.id in self.defs and self.depth < 20:
            self.depth += 1
            try:
                t = ast.parse(self.defs[node.id].strip(), mode="eval").body
                return self.visit(t)
            finally:
                self.depth -= 1
        return node

    def visit_Attribute(self, node):
        self.generic_visit(node)
        a = node.attr
        if a.startswith("__") and not a.endswith("__") and self.clsname:
            node.attr = "_%s%s" % (self.clsname.lstrip("_"), a)
        return node


class LazyImplies(ast.NodeTransformer):
    """implies(a, b) -> (not a) or b, so that b is only evaluated when a holds (as in the SMT reading,
    where b is guarded by a)."""

    def visit_Call(self, node):
        self.generic_visit(node)
        if isinstance(node.func, ast.Name) and node.func.id == "implies" and len(node.args) == 2:
            return ast.BoolOp(op=ast.Or(), values=[ast.UnaryOp(op=ast.Not(), operand=node.args[0]), node.args[1]])
        return node


class TolerantEq(ast.NodeTransformer):
    """a == b / a != b on floats are evaluated with a relative tolerance of 1e-9 natively: contracts are
    stated over reals, the real code computes in doubles."""

    def visit_Compare(self, node):
        self.generic_visit(node)
        if len(node.ops) == 1 and isinstance(node.ops[0], (ast.Eq, ast.NotEq)):
            call = ast.Call(func=ast.Name(id="__feq", ctx=ast.Load()), args=[node.left, node.comparators[0]], keywords=[])
            if isinstance(node.ops[0], ast.NotEq):
                return ast.UnaryOp(op=ast.Not(), operand=call)
            return call
        return node


def _feq(a, b):
    if isinstance(a, float) or isinstance(b, float):
        try:
            if isinstance(a, bool) or isinstance(b, bool):
                return a == b
            fa, fb = float(a), float(b)
            if math.isinf(fa) or math.isinf(fb):
                return fa == fb
            return math.isclose(fa, fb, rel_tol=1e-9, abs_tol=1e-12)
        except (TypeError, ValueError):
            return a == b
    if isinstance(a, tuple) and isinstance(b, tuple) and len(a) == len(b):
        return all(_feq(x, y) for x, y in zip(a, b))
    return a == b


class OldRebinder(ast.NodeTransformer):
    """old(e) -> (lambda <params>: e)(<pre-state copies of the params>).  Bound variables of enclosing
    quantifiers stay visible through the closure; only the state names are rebound to the pre-state."""

    def __init__(self, params):
        self.params = params

    def visit_Call(self, node):
        self.generic_visit(node)
        if isinstance(node.func, ast.Name) and node.func.id == "old" and len(node.args) == 1:
            lam = ast.Lambda(args=ast.arguments(posonlyargs=[], args=[ast.arg(arg=p) for p in self.params],
                                                kwonlyargs=[], kw_defaults=[], defaults=[]),
                             body=node.args[0])
            return ast.Call(func=lam, args=[ast.Name(id="__pre_" + p, ctx=ast.Load()) for p in self.params],
                            keywords=[])
        return node


def compile_expr(src, defs, clsname, params):
    t = ast.parse(src.strip(), mode="eval").body
    t = Expander(defs, clsname).visit(t)
    t = LazyImplies().visit(t)
    t = TolerantEq().visit(t)
    t = OldRebinder(params).visit(t)
    e = ast.Expression(t)
    ast.fix_missing_locations(e)
    return compile(e, "<contract>", "eval")


def all_defs(mod, fs):
    defs = {}
    S = mod.S
    defs.update(getattr(S, "global_defs", {}))
    if fs.clsname and fs.clsname in S.classes:
        defs.update(S.classes[fs.clsname].defs)
    defs.update(fs.defs)
    return defs


def recfun_natives(mod, ns):
    """Native twins of the recursive spec functions: the same body text, compiled as a Python lambda."""
    S = mod.S
    gdefs = dict(getattr(S, "global_defs", {}))
    for name, (params, returns, body) in getattr(S, "recfuns", {}).items():
        t = ast.parse(body.strip(), mode="eval").body
        t = Expander(gdefs, None).visit(t)
        t = LazyImplies().visit(t)
        lam = ast.Lambda(args=ast.arguments(posonlyargs=[], args=[ast.arg(arg=p) for p, _ in params],
                                            kwonlyargs=[], kw_defaults=[], defaults=[]), body=t)
        e = ast.Expression(lam)
        ast.fix_missing_locations(e)
        ns[name] = eval(compile(e, "<recfun %s>" % name, "eval"), ns)


def base_namespace(mod):
    ns = dict(N.NATIVES)
    ns["__feq"] = _feq
    try:
        from pyvc import native_term
        ns.update(native_term.ACCESSORS)
    except Exception:
        pass
    ns.update(getattr(mod, "NATIVE_SPEC", {}))
    recfun_natives(mod, ns)
    for name in getattr(mod.S, "recfuns", {}):
        setattr(mod, name, ns[name])       # helper functions of the contract module may call them
    return ns


def evaluate_contract(mod, fs, func, vals, extra_ns=None):
    """Call func(**vals) and evaluate the contract.  -> (ok: bool|None, text)"""
    defs = all_defs(mod, fs)
    params = list(vals)
    ns = base_namespace(mod)
    ns.update(extra_ns or {})
    ns.update(vals)
    ghost = getattr(mod, "native_ghost", None)     # recompute ghost fields from the concrete state
    if ghost is not None:
        ghost(vals)
    for r in fs.requires:
        code = compile_expr(r, defs, fs.clsname, params)
        try:
            if not eval(code, ns):
                return None, "precondition `%s` is false on these inputs" % r
        except N.Skip:
            return None, "precondition `%s` not evaluable natively" % r
    pre = copy.deepcopy(vals)
    for p in params:
        ns["__pre_" + p] = pre[p]
    comp = [compile_expr(e, defs, fs.clsname, params) for e in fs.ensures]
    rcomp = dict((k, compile_expr(c, defs, fs.clsname, params)) for k, c in fs.raises.items())
    try:
        result = func(**vals)
        if fs.yields:
            result = list(result)
    except Exception as e:
        name = type(e).__name__
        pre_ns = dict(ns)
        pre_ns.update(pre)
        for k, code in rcomp.items():
            if k in [c.__name__ for c in type(e).__mro__]:
                ok = eval(code, pre_ns)
                if ok:
                    return True, "raised %s as allowed" % name
                return False, "raised %s although the contract's condition for it (`%s`) is false" % (name, fs.raises[k])
        return False, "raised %s: %s, which the contract does not allow" % (name, e)
    ns["result"] = result
    if ghost is not None:
        ghost(vals)
        if isinstance(result, tuple(type(v) for v in vals.values() if hasattr(v, "__dict__"))):
            ghost(dict(result=result))
    skipped = 0
    for code, src in zip(comp, fs.ensures):
        try:
            if not eval(code, ns):
                return False, "postcondition `%s` is false; result=%r" % (src, _r(result))
        except N.Skip:
            skipped += 1
            continue
    return True, "all postconditions hold (%d not evaluable); result=%r" % (skipped, _r(result),)


def _r(x):
    s = repr(x)
    return s if len(s) < 160 else s[:160] + "..."


def resolve(fs):
    m = importlib.import_module(fs.module)
    obj = m
    for part in fs.path.split("."):
        obj = getattr(obj, part)
    return obj


def replay(mod, qual, vals, builder, req):
    fs = find_spec(mod, qual)
    if fs is None:
        return dict(confirmed=None, text="no contract %s" % qual)
    if getattr(fs, "src", None) is not None:
        return dict(confirmed=None, text="ghost lemma: nothing to run natively")
    func = resolve(fs)
    ok, text = evaluate_contract(mod, fs, func, vals)
    if ok is None:
        return dict(confirmed=None, text=text)
    return dict(confirmed=(not ok), text="%s on inputs %s: %s" % (qual, N._short(vals), text))
