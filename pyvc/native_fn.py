"""Native evaluation of a function contract on concrete inputs (replay, bounded stand-ins, audit)."""
import ast
import copy
import importlib
import math

from pyvc import native as N


def find_spec(mod, qual):
    S = mod.S
    if qual in S.fns:
        return S.fns[qual]
    for inc in S.includes:
        if qual in inc.fns:
            return inc.fns[qual]
    return None


class Expander(ast.NodeTransformer):
    def __init__(self, defs, clsname):
        self.defs, self.clsname = defs, clsname
        self.depth = 0

    def visit_Name(self, node):
        if node.id in self.defs and self.depth < 20:
            self.depth += 1
            try:
                t = ast.parse(self.defs[node.id].strip(), mode="eval").body
                return self.visit(t)
            finally:
                self.depth -= 1
        return node

    def visit_Attribute(self, node):
        self.generic_visit(node)
        a = node.attr
        if a.startswith("__") and not a.endswith("__") and self.clsname:
            node.attr = "_%s%s" % (self.clsname.lstrip("_"), a)
        return node


class OldLifter(ast.NodeTransformer):
    def __init__(self):
        self.olds = []

    def visit_Call(self, node):
        if isinstance(node.func, ast.Name) and node.func.id == "old":
            name = "__old_%d" % len(self.olds)
            self.olds.append((name, node.args[0]))
            return ast.Name(id=name, ctx=ast.Load())
        self.generic_visit(node)
        return node


def compile_expr(src, defs, clsname):
    t = ast.parse(src.strip(), mode="eval").body
    t = Expander(defs, clsname).visit(t)
    lifter = OldLifter()
    t = lifter.visit(t)
    ast.fix_missing_locations(t)
    code = compile(ast.Expression(t), "<contract>", "eval")
    olds = []
    for name, e in lifter.olds:
        ee = ast.Expression(e)
        ast.fix_missing_locations(ee)
        olds.append((name, compile(ee, "<old>", "eval")))
    return code, olds


def all_defs(mod, fs):
    defs = {}
    S = mod.S
    defs.update(getattr(S, "global_defs", {}))
    if fs.clsname and fs.clsname in S.classes:
        defs.update(S.classes[fs.clsname].defs)
    defs.update(fs.defs)
    return defs


def evaluate_contract(mod, fs, func, vals, extra_ns=None):
    """Call func(**vals) and evaluate the contract.  -> (ok: bool|None, text)"""
    defs = all_defs(mod, fs)
    ns = dict(N.NATIVES)
    ns.update(getattr(mod, "NATIVE_SPEC", {}))
    ns.update(extra_ns or {})
    ns.update(vals)
    for r in fs.requires:
        code, _ = compile_expr(r, defs, fs.clsname)
        try:
            if not eval(code, ns):
                return None, "precondition `%s` is false on these inputs" % r
        except N.Skip:
            return None, "precondition not evaluable"
    comp = [compile_expr(e, defs, fs.clsname) for e in fs.ensures]
    rcomp = dict((k, compile_expr(c, defs, fs.clsname)) for k, c in fs.raises.items())
    oldvals = {}
    for code, olds in comp:
        for name, oc in olds:
            oldvals[(id(code), name)] = copy.deepcopy(eval(oc, ns))
    pre_ns = dict(ns)
    pre_ns.update(copy.deepcopy(dict((k, v) for k, v in vals.items() if k != "self")))
    try:
        result = func(**vals)
        if fs.yields:
            result = list(result)
    except Exception as e:
        name = type(e).__name__
        for k, (code, olds) in rcomp.items():
            if k in [c.__name__ for c in type(e).__mro__]:
                ok = eval(code, pre_ns)
                if ok:
                    return True, "raised %s as allowed" % name
                return False, "raised %s although the contract's condition for it (`%s`) is false" % (name, fs.raises[k])
        return False, "raised %s: %s, which the contract does not allow" % (name, e)
    ns["result"] = result
    for (code, olds), src in zip(comp, fs.ensures):
        for name, oc in olds:
            ns[name] = oldvals[(id(code), name)]
        try:
            if not eval(code, ns):
                return False, "postcondition `%s` is false; result=%r" % (src, _r(result))
        except N.Skip:
            continue
    return True, "all postconditions hold; result=%r" % (_r(result),)


def _r(x):
    s = repr(x)
    return s if len(s) < 160 else s[:160] + "..."


def resolve(fs):
    m = importlib.import_module(fs.module)
    obj = m
    for part in fs.path.split("."):
        obj = getattr(obj, part)
    return obj


def replay(mod, qual, vals, builder, req):
    fs = find_spec(mod, qual)
    if fs is None:
        return dict(confirmed=None, text="no contract %s" % qual)
    func = resolve(fs)
    ok, text = evaluate_contract(mod, fs, func, vals)
    if ok is None:
        return dict(confirmed=None, text=text)
    return dict(confirmed=(not ok), text="%s on inputs %s: %s" % (qual, N._short(vals), text))
