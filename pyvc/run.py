"""Run the contracts of one property: explore, discharge, report."""
import importlib
import json
import multiprocessing as mp
import os
import sys
import time

sys.setrecursionlimit(10000)


def _work(args):
    pid, kind, key = args
    from pyvc import verify
    mod = importlib.import_module("contracts." + pid)
    spec = mod.S
    if kind == "fn":
        res = verify.explore(spec, fs=spec.fns[key])
    else:
        lem = [l for l in spec.lemmas if l.name == key][0]
        res = verify.explore(spec, lemma=lem)
    out = []
    for o in res.obligations:
        d = dict(name=o["name"], kind=o["kind"], line=o["line"], path=o["path"])
        if o["trivial"]:
            d.update(status="unsat", backend="simplifier", seconds=0.0)
        else:
            st, be, dt, model, smt2 = verify.discharge(o["ob"])
            d.update(status=st, backend=be, seconds=round(dt, 4))
            if st == "sat" and model is not None:
                d["model"] = verify.model_to_dict(model, o["ob"].inputs)
                try:
                    from pyvc import concretize, state as _st
                    ex = verify.Executor(spec, _st.Ctx([], "concretize"))
                    cz = concretize.Concretizer(model, ex.ty, spec)
                    py = dict((n, cz.val(v)) for n, v in o["ob"].inputs)
                    d["pyinputs"] = dict(args=py, heap=cz.heap())
                except Exception as e:
                    d["pyinputs_error"] = "%s: %s" % (type(e).__name__, e)
            if st != "unsat":
                d["smt2"] = smt2
        out.append(d)
    return dict(qual=res.qual, status=res.status, reason=res.reason, obligations=out, paths=res.paths,
                returns=res.returns, raises=res.raises, dropped=sorted(res.dropped),
                assumptions=sorted(res.assumptions), inlined=sorted(res.inlined), file=res.file, line=res.line,
                digest=res.digest, seconds=round(res.seconds, 3), notes=sorted(res.notes),
                unreached=list(res.unreached) + list(res.vacuous))


def run_property(pid, jobs=None, only=None):
    mod = importlib.import_module("contracts." + pid)
    spec = mod.S
    tasks = []
    for q, fs in spec.fns.items():
        if fs.abstract or fs.trusted or fs.native_only or (fs.inline and not fs.ensures):
            continue
        tasks.append((pid, "fn", q))
    for l in spec.lemmas:
        tasks.append((pid, "lemma", l.name))
    if only:
        tasks = [t for t in tasks if only in t[2]]
    jobs = jobs or min(16, max(1, len(tasks)))
    if jobs == 1 or len(tasks) <= 1:
        results = [_work(t) for t in tasks]
    else:
        # spawn, not fork: z3 state must not be inherited by the workers
        with mp.get_context("spawn").Pool(jobs, maxtasksperchild=4) as pool:
            results = pool.map(_work, tasks, chunksize=1)
    return spec, results


if __name__ == "__main__":
    pid = sys.argv[1]
    only = sys.argv[2] if len(sys.argv) > 2 else None
    t0 = time.time()
    spec, results = run_property(pid, only=only, jobs=int(os.environ.get("PYVC_JOBS", "0")) or None)
    for r in results:
        nob = len(r["obligations"])
        bad = [o for o in r["obligations"] if o["status"] != "unsat"]
        print("%-50s %-10s paths=%d ret=%d obl=%d bad=%d %.2fs %s" % (
            r["qual"], r["status"], r["paths"], r["returns"], nob, len(bad), r["seconds"], r["reason"] or ""))
        for o in bad[:int(os.environ.get("PYVC_SHOW", "6"))]:
            print("    %s [%s] %s path=%s line=%s inputs=%s" % (o["status"].upper(), o["backend"], o["name"], o["path"],
                                                                o["line"], json.dumps((o.get("pyinputs") or {}).get("args"))[:300]))
    print("total %.1fs" % (time.time() - t0))
