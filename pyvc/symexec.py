"""Symbolic executor: expressions.  Statements are in stmts.py, calls in calls.py."""
import ast
import z3
from .types import *
from .values import *
from .state import *
from . import extract

BVW = 64


class ExprMixin(object):
    # ------------------------------------------------------------ helpers
    @property
    def fr(self):
        return self.frames[-1]

    def ty(self, src):
        if isinstance(src, Ty):
            return src
        env = {}
        for k, v in self.spec.aliases.items():
            env[k] = parse_type(v, env) if isinstance(v, str) else v
        return parse_type(src, env)

    def cspec(self, clsname):
        return self.spec.classes.get(clsname)

    def field_type(self, clsname, field):
        """Search the class spec (and specs of base classes) for a declared field."""
        cs = self.cspec(clsname)
        if cs is not None:
            if field in cs.fields:
                return self.ty(cs.fields[field])
            if field in cs.ghost:
                return self.ty(cs.ghost[field])
            if not cs.record:
                for mi, cd in extract.mro(cs.module, cs.name)[1:]:
                    b = self.cspec(cd.name)
                    if b is not None and (field in b.fields or field in b.ghost):
                        return self.ty(b.fields.get(field, b.ghost.get(field)))
        return None

    def field_owner(self, clsname, field):
        cs = self.cspec(clsname)
        if cs is not None and not cs.record and field not in cs.fields and field not in cs.ghost:
            for mi, cd in extract.mro(cs.module, cs.name)[1:]:
                b = self.cspec(cd.name)
                if b is not None and (field in b.fields or field in b.ghost):
                    return cd.name
        return clsname

    def mangle(self, attr):
        if attr.startswith("__") and not attr.endswith("__") and self.fr.clsname:
            return "_%s%s" % (self.fr.clsname.lstrip("_"), attr)
        return attr

    def safety(self, ok, exc, what, node):
        """`ok` must hold or Python raises `exc` here."""
        line = getattr(node, "lineno", 0)
        if self.spec_mode:
            return
        if self.expected(exc):
            if not self.ctx.decide(ok):
                raise RaiseSignal(exc, line)
        else:
            self.ctx.oblige(ok, "%s/safety:%s:%s#%d" % (self.ctx.fnname, exc, what, self.site(node)),
                            "safety", line)

    def site(self, node):
        """Stable ordinal of an AST node inside its function (not a line number)."""
        k = id(node)
        return self.site_ids.get(k, 0)

    def expected(self, exc):
        """Is exception class `exc` caught by an enclosing try or allowed by the contract?"""
        for fr in reversed(self.frames):
            for hs in fr.handlers:
                for h in hs:
                    if h is None or extract.exc_is_subclass(exc, h):
                        return True
            if fr.spec is not None and not getattr(fr, "inlined", False):
                for h in fr.spec.raises:
                    if extract.exc_is_subclass(exc, h):
                        return True
                break
        return False

    # ------------------------------------------------------------ entry point
    def ev(self, node):
        m = getattr(self, "ev_" + type(node).__name__, None)
        if m is None:
            raise Unsupported("expression %s" % type(node).__name__)
        return m(node)

    def ev_bool(self, node):
        return self.truth(self.ev(node), node)

    def truth(self, v, node=None):
        if isinstance(v.ty, TRef):
            return self.bi_bool([v], {}, node).t
        return truthy(v)

    def ev_Constant(self, node):
        v = node.value
        if v is None:
            return VNONE
        if isinstance(v, bool):
            return vbool(v)
        if isinstance(v, int):
            return vint(v)
        if isinstance(v, float):
            return vfloat(v)
        if isinstance(v, str):
            return vstr(v)
        raise Unsupported("constant %r" % (v,))

    def ev_Name(self, node):
        n = node.id
        fr = self.fr
        if n in fr.alias:
            return self.read_path(fr.alias[n])
        if n in fr.locals:
            return fr.locals[n]
        if n == "yielded" and fr.yielded is not None:
            return fr.yielded
        if n == "True":
            return vbool(True)
        if n == "False":
            return vbool(False)
        d = self.lookup_def(n)
        if d is not None:
            tree = self.parse(d)
            if isinstance(tree, ast.Lambda):
                return Val(TFun(), None, ("lambda", tree, dict(fr.locals), fr))
            return self.ev(tree)
        return self.global_name(n, node)

    def lookup_def(self, n):
        fr = self.fr
        if n in fr.defs:
            return fr.defs[n]
        if fr.spec is not None and n in fr.spec.defs:
            return fr.spec.defs[n]
        if fr.clsname:
            cs = self.cspec(fr.clsname)
            if cs is not None and n in cs.defs:
                return cs.defs[n]
        if n in self.global_defs:
            return self.global_defs[n]
        return None

    def parse(self, src):
        t = self._parse_cache.get(src)
        if t is None:
            t = ast.parse(src.strip(), mode="eval").body
            self._parse_cache[src] = t
        return t

    def global_name(self, n, node):
        fr = self.fr
        mi = extract.load_module(fr.modname) if fr.modname else None
        if n in self.spec_funcs:
            return Val(TFun(), None, ("spec", n))
        if n in getattr(self.spec, "lemma_fns", {}):
            return Val(TFun(), None, ("lemmafn", n))
        if mi is not None:
            if n in mi.functions:
                return Val(TFun(), None, ("func", mi.name, n))
            if n in mi.classes:
                return Val(TType(), None, ("class", mi.name, n))
            if n in mi.assigns:
                save = self.spec_mode
                try:
                    return self.ev(mi.assigns[n])
                finally:
                    self.spec_mode = save
            if n in mi.imports:
                m, a = mi.imports[n]
                if a is None:
                    return Val(TType(), None, ("module", m))
                r = extract.find_class(m, a)
                if r:
                    return Val(TType(), None, ("class", r[0].name, a))
                mm = extract.load_module(m)
                if mm is not None and a in mm.functions:
                    return Val(TFun(), None, ("func", m, a))
                if mm is not None and a in mm.assigns:
                    old = fr.modname
                    fr.modname = m
                    try:
                        return self.ev(mm.assigns[a])
                    finally:
                        fr.modname = old
                return Val(TType(), None, ("extern", m, a))
        import builtins
        if n in ("math",):
            return Val(TType(), None, ("module", n))
        if hasattr(builtins, n):
            if isinstance(getattr(builtins, n), type) and issubclass(getattr(builtins, n), BaseException):
                return Val(TType(), None, ("exc", n))
            return Val(TFun(), None, ("builtin", n))
        # classes from the spec (records, or classes of other modules used in harnesses)
        if n in self.spec.classes:
            cs = self.spec.classes[n]
            return Val(TType(), None, ("class", cs.module, cs.name))
        raise Unsupported("unknown name %s" % n)

    # ------------------------------------------------------------ composite literals
    def ev_Tuple(self, node):
        return mk_tuple([self.ev(e) for e in node.elts])

    def ev_List(self, node):
        items = [self.ev(e) for e in node.elts]
        fr = self.fr
        alloc_as = fr.spec.alloc_as if fr.spec is not None else None
        if alloc_as and len(items) in alloc_as and not self.spec_mode:
            rec = alloc_as[len(items)]
            r = self.ctx.new_ref(rec)
            cs = self.cspec(rec)
            if len(items) == 0:
                return r
            for i, it in enumerate(items):
                self.ctx.write_field(r.t, rec, str(i), self.ty(cs.fields[str(i)]), it)
            return r
        if not items:
            return self.empty_list(NONE)
        t = items[0].ty
        for it in items[1:]:
            if it.ty != t:
                if t == INT and it.ty == FLOAT:
                    t = FLOAT
                elif t == NONE:
                    t = TOpt(it.ty)
                elif it.ty == NONE and not isinstance(t, TOpt):
                    t = TOpt(t)
        lt = TList(t)
        arr = z3.K(z3.IntSort(), term_of(coerce(items[0], t)))
        for i, it in enumerate(items):
            arr = z3.Store(arr, i, term_of(coerce(it, t)))
        return mk_list(lt, z3.IntVal(len(items)), arr)

    def empty_list(self, t):
        lt = TList(t)
        d = self.ctx.fresh("empty_" + t.name.replace("[", "_").replace("]", "").replace(",", "_"), lt)
        return mk_list(lt, z3.IntVal(0), list_arr(d))

    def ev_Dict(self, node):
        if node.keys:
            raise Unsupported("non-empty dict literal")
        return Val(TDict(NONE, NONE), None, "emptydict")

    def ev_Lambda(self, node):
        return Val(TFun(), None, ("lambda", node, dict(self.fr.locals), self.fr))

    # ------------------------------------------------------------ operators
    def ev_UnaryOp(self, node):
        v = self.ev(node.operand)
        if isinstance(node.op, ast.Not):
            return vbool(z3.Not(self.truth(v, node)))
        if isinstance(node.op, ast.USub):
            if isinstance(v.ty, TOpt) and v.ty.t in (INT, FLOAT):
                # -None raises TypeError: a safety obligation, then the operation on the value
                self.safety(z3.Not(opt_is_none(v)), "TypeError", "neg-none", node)
                v = opt_val(v)
            if v.ty == INT:
                return vint(-v.t)
            if v.ty == BOOL:
                return vint(-coerce(v, INT).t)
            if v.ty == FLOAT:
                return Val(FLOAT, f_arith("-", ffin(0), v.t, lambda c: None))
        if isinstance(node.op, ast.UAdd) and v.ty in (INT, FLOAT):
            return v
        if isinstance(node.op, ast.Invert) and v.ty == INT:
            return vint(-v.t - 1)
        return self.unary_other(node, v)

    def unary_other(self, node, v):
        raise Unsupported("unary %s on %s" % (type(node.op).__name__, v.ty))

    def ev_BoolOp(self, node):
        is_and = isinstance(node.op, ast.And)
        if self.spec_mode:
            vals = [self.ev(e) for e in node.values]
            if all(v.ty == BOOL for v in vals):
                return vbool((z3.And if is_and else z3.Or)(*[v.t for v in vals]))
            out = vals[-1]
            for v in reversed(vals[:-1]):
                c = self.truth(v, node)
                out = self.ite(c, out, v) if is_and else self.ite(c, v, out)
            return out
        v = None
        for e in node.values[:-1]:
            v = self.ev(e)
            t = self.ctx.decide(self.truth(v, node))
            if is_and and not t:
                return v
            if (not is_and) and t:
                return v
        return self.ev(node.values[-1])

    def ite(self, c, a, b):
        c = z3.simplify(c)
        if z3.is_true(c):
            return a
        if z3.is_false(c):
            return b
        if a.ty != b.ty:
            if a.ty == NONE and b.ty != NONE:
                t = b.ty if isinstance(b.ty, TOpt) else TOpt(b.ty)
            elif b.ty == NONE:
                t = a.ty if isinstance(a.ty, TOpt) else TOpt(a.ty)
            elif FLOAT in (a.ty, b.ty) and INT in (a.ty, b.ty):
                t = FLOAT
            elif isinstance(a.ty, TOpt) and a.ty.t == b.ty:
                t = a.ty
            elif isinstance(b.ty, TOpt) and b.ty.t == a.ty:
                t = b.ty
            else:
                raise Unsupported("ite of %s and %s" % (a.ty, b.ty))
            a, b = coerce(a, t), coerce(b, t)
        if isinstance(a.ty, (TFun, TType)):
            raise Unsupported("ite of functions")
        return Val(a.ty, z3.If(c, term_of(a), term_of(b)))

    def ev_IfExp(self, node):
        if self.spec_mode:
            c = self.ev_bool(node.test)
            cs = z3.simplify(c)
            if z3.is_true(cs):
                return self.ev(node.body)
            if z3.is_false(cs):
                return self.ev(node.orelse)
            return self.ite(c, self.ev(node.body), self.ev(node.orelse))
        if self.ctx.decide(self.ev_bool(node.test)):
            return self.ev(node.body)
        return self.ev(node.orelse)

    def ev_BinOp(self, node):
        a = self.ev(node.left)
        b = self.ev(node.right)
        return self.binop(type(node.op).__name__, a, b, node)

    def nan_check(self, node):
        def cb(ok):
            if not self.spec_mode:
                self.ctx.oblige(ok, "%s/safety:NaN#%d" % (self.ctx.fnname, self.site(node)), "safety",
                                getattr(node, "lineno", 0))
        return cb

    def binop(self, op, a, b, node):
        ta, tb = a.ty, b.ty
        if ta == BOOL:
            a, ta = coerce(a, INT), INT
        if tb == BOOL:
            b, tb = coerce(b, INT), INT
        if isinstance(ta, TOpt) or isinstance(tb, TOpt):
            a, b = self.unwrap(a, node), self.unwrap(b, node)
            return self.binop(op, a, b, node)
        if ta == INT and tb == INT:
            x, y = a.t, b.t
            if op == "Add":
                return vint(x + y)
            if op == "Sub":
                return vint(x - y)
            if op == "Mult":
                return vint(x * y)
            if op == "FloorDiv":
                self.safety(y != 0, "ZeroDivisionError", "floordiv", node)
                return vint(self.floordiv(x, y))
            if op == "Mod":
                self.safety(y != 0, "ZeroDivisionError", "mod", node)
                return vint(x - y * self.floordiv(x, y))
            if op == "Div":
                self.safety(y != 0, "ZeroDivisionError", "div", node)
                return Val(FLOAT, ffin(z3.ToReal(x) / z3.ToReal(y)))
            if op == "Pow":
                return self.int_pow(a, b, node)
            if op in ("RShift", "LShift", "BitAnd", "BitOr", "BitXor"):
                return self.bitop(op, a, b, node)
        if ta in (INT, FLOAT) and tb in (INT, FLOAT):
            fa, fb = to_float(a), to_float(b)
            sym = {"Add": "+", "Sub": "-", "Mult": "*", "Div": "/"}.get(op)
            if sym:
                if sym == "/":
                    self.safety(fb.t != ffin(0), "ZeroDivisionError", "div", node)
                return Val(FLOAT, z3.simplify(f_arith(sym, fa.t, fb.t, self.nan_check(node))))
            return self.float_binop(op, fa, fb, node)
        if ta == STR and tb == STR and op == "Add":
            return vstr(z3.Concat(a.t, b.t))
        if ta == STR and op == "Mod":
            return self.str_format(a, b, node)
        if isinstance(ta, TList) and isinstance(tb, TList) and op == "Add":
            return self.list_concat(a, b)
        if isinstance(ta, TList) and tb == INT and op == "Mult":
            return self.list_repeat(a, b)
        return self.binop_other(op, a, b, node)

    def binop_other(self, op, a, b, node):
        if isinstance(a.ty, TSet) and isinstance(b.ty, TSet) and op in ("BitOr", "BitAnd", "Sub"):
            if a.ty.k == NONE and b.ty.k == NONE:
                return a
            if a.ty.k == NONE:
                a = empty_set(b.ty)
            if b.ty.k == NONE:
                b = empty_set(a.ty)
            if a.ty != b.ty:
                raise Unsupported("set op on %s, %s" % (a.ty, b.ty))
            if op == "BitOr":
                return Val(a.ty, z3.Map(_bool_or(), a.t, b.t))
            if op == "BitAnd":
                return Val(a.ty, z3.Map(_bool_and(), a.t, b.t))
            return Val(a.ty, z3.Map(_bool_andnot(), a.t, b.t))
        raise Unsupported("binop %s on %s,%s" % (op, a.ty, b.ty))

    def ev_Set(self, node):
        items = [self.ev(e) for e in node.elts]
        t = TSet(items[0].ty)
        s = empty_set(t).t
        for it in items:
            s = z3.Store(s, term_of(coerce(it, t.k)), z3.BoolVal(True))
        return Val(t, s)

    def float_binop(self, op, a, b, node):
        raise Unsupported("float binop %s" % op)

    def floordiv(self, x, y):
        ys = z3.simplify(y)
        if z3.is_int_value(ys) and ys.as_long() > 0:
            return x / y
        return z3.If(y > 0, x / y, (-x) / (-y))

    def int_pow(self, a, b, node):
        e = z3.simplify(b.t)
        if z3.is_int_value(e) and 0 <= e.as_long() <= 8:
            r = z3.IntVal(1)
            for _ in range(e.as_long()):
                r = r * a.t
            return vint(r)
        return self.pow_other(a, b, node)

    def pow_other(self, a, b, node):
        raise Unsupported("general int power")

    def const_int(self, v):
        s = z3.simplify(v.t)
        return s.as_long() if z3.is_int_value(s) else None

    def const_int_pc(self, v):
        """Integer value of v if the path condition forces a unique value (e.g. a field fixed by the
        class invariant); None otherwise."""
        k = self.const_int(v)
        if k is not None or self.spec_mode:
            return k
        f = self.ctx.feas
        if f.check() != z3.sat:
            return None
        val = f.model().eval(v.t, model_completion=True)
        if not z3.is_int_value(val):
            return None
        f.push()
        f.add(v.t != val)
        r = f.check()
        f.pop()
        return val.as_long() if r == z3.unsat else None

    def bitop(self, op, a, b, node):
        ka, kb = self.const_int(a), self.const_int(b)
        if kb is None and op in ("RShift", "LShift"):
            kb = self.const_int_pc(b)
            if kb is not None:
                b = vint(kb)
        if kb is None and op == "BitAnd":
            kb = self.const_int_pc(b)
            if kb is not None:
                b = vint(kb)
        if op == "RShift" and kb is not None and kb >= 0:
            return vint(a.t / z3.IntVal(2 ** kb))
        if op == "LShift" and kb is not None and kb >= 0:
            return vint(a.t * z3.IntVal(2 ** kb))
        if op == "LShift" and ka is not None and kb is not None:
            return vint(ka << kb)
        if op == "BitAnd" and kb is not None and kb >= 0 and (kb & (kb + 1)) == 0:
            return vint(a.t % z3.IntVal(kb + 1))
        if op == "BitAnd" and ka is not None and ka >= 0 and (ka & (ka + 1)) == 0:
            return vint(b.t % z3.IntVal(ka + 1))
        # general case: uninterpreted operators on non-negative integers, characterised bit-wise by
        # the axioms of bitops.py (themselves checked in the bit-vector theory by the self-test)
        from . import bitops
        for x, nm in ((a, "l"), (b, "r")):
            if not self.spec_mode:
                self.ctx.oblige(x.t >= 0, "%s/safety:bitop-nonneg-%s#%d" % (self.ctx.fnname, nm, self.site(node)),
                                "safety", getattr(node, "lineno", 0))
        bitops.ensure_axioms(self.ctx)
        self.assumptions.add(bitops.AXIOM_TEXT)
        return vint(bitops.OPS[op](a.t, b.t))

    def unwrap(self, v, node):
        if isinstance(v.ty, TOpt):
            self.safety(z3.Not(opt_is_none(v)), "TypeError", "none-operand", node)
            return opt_val(v)
        if v.ty == NONE:
            self.safety(z3.BoolVal(False), "TypeError", "none-operand", node)
            raise PathEnd()
        return v

    # ------------------------------------------------------------ comparisons
    def ev_Compare(self, node):
        left = self.ev(node.left)
        if len(node.ops) == 1 and isinstance(node.ops[0], (ast.Is, ast.IsNot)) and not self.spec_mode \
                and isinstance(node.left, ast.Name) and isinstance(left.ty, TOpt) \
                and isinstance(node.comparators[0], ast.Constant) and node.comparators[0].value is None \
                and node.left.id in self.fr.locals and node.left.id not in self.fr.alias:
            # flow-sensitive narrowing of an Optional local: decide here and rebind the local
            isnone = self.ctx.decide(opt_is_none(left))
            self.fr.locals[node.left.id] = VNONE if isnone else opt_val(left)
            return vbool(isnone if isinstance(node.ops[0], ast.Is) else not isnone)
        if len(node.ops) == 1:
            right = self.ev(node.comparators[0])
            return vbool(self.compare(node.ops[0], left, right, node))
        terms = []
        cur = left
        for i, (op, cn) in enumerate(zip(node.ops, node.comparators)):
            right = self.ev(cn)
            c = self.compare(op, cur, right, node)
            terms.append(c)
            cur = right
            if not self.spec_mode and i < len(node.ops) - 1:
                if not self.ctx.decide(c):
                    return vbool(False)
        return vbool(z3.And(*terms))

    def compare(self, op, a, b, node):
        opn = type(op).__name__
        if opn in ("Is", "IsNot"):
            r = self.identical(a, b)
            return r if opn == "Is" else z3.Not(r)
        if opn in ("In", "NotIn"):
            r = self.contains(b, a, node)
            return r if opn == "In" else z3.Not(r)
        if opn in ("Eq", "NotEq"):
            r = self.equal(a, b, node)
            return r if opn == "Eq" else z3.Not(r)
        sym = {"Lt": "<", "LtE": "<=", "Gt": ">", "GtE": ">="}[opn]
        return self.order(sym, a, b, node)

    def identical(self, a, b):
        if a.ty == NONE and b.ty == NONE:
            return z3.BoolVal(True)
        if a.ty == NONE:
            a, b = b, a
        if b.ty == NONE:
            if isinstance(a.ty, TOpt):
                return opt_is_none(a)
            if a.ty == TERM:
                return self.term_identical_none(a)
            return z3.BoolVal(False)
        if isinstance(a.ty, (TType, TFun)) and isinstance(b.ty, (TType, TFun)):
            return z3.BoolVal(self.pytype_name(a) is not None and self.pytype_name(a) == self.pytype_name(b))
        if isinstance(a.ty, TRef) and isinstance(b.ty, TRef):
            return a.t == b.t
        if isinstance(a.ty, TOpt) and isinstance(a.ty.t, TRef) and isinstance(b.ty, TRef):
            return z3.And(z3.Not(opt_is_none(a)), opt_val(a).t == b.t)
        if isinstance(b.ty, TOpt) and isinstance(b.ty.t, TRef) and isinstance(a.ty, TRef):
            return self.identical(b, a)
        if a.ty == BOOL and b.ty == BOOL:
            return a.t == b.t
        if a.ty == b.ty and a.ty in (INT, STR, FLOAT) and self.spec_mode:
            return term_of(a) == term_of(b)
        if isinstance(a.ty, TType) and isinstance(b.ty, TType):
            return z3.BoolVal(a.py == b.py)
        raise Unsupported("`is` on %s, %s" % (a.ty, b.ty))

    def pytype_name(self, v):
        p = v.py
        if isinstance(v.ty, TType) and p and p[0] == "pytype":
            return p[1]
        if isinstance(v.ty, TFun) and p and p[0] == "builtin" and p[1] in ("int", "float", "str", "bool", "list", "tuple"):
            return p[1]
        if isinstance(v.ty, TType) and p and p[0] == "class":
            return p[2]
        return None

    def equal(self, a, b, node=None):
        ta, tb = a.ty, b.ty
        if self.pytype_name(a) is not None and self.pytype_name(b) is not None:
            return z3.BoolVal(self.pytype_name(a) == self.pytype_name(b))
        if isinstance(ta, (TFun, TMethodRef)) or isinstance(tb, (TFun, TMethodRef)):
            if isinstance(ta, TFun) and isinstance(tb, TFun):
                return z3.BoolVal(a.py[:1] + a.py[2:] == b.py[:1] + b.py[2:]) if a.py[0] == "bound" \
                    else z3.BoolVal(a.py == b.py)
            # a function/method object never equals a data value
            self.ctx.notes.add("method object compared with a data value (always unequal)")
            return z3.BoolVal(False)
        if ta == NONE or tb == NONE:
            return self.identical(a, b) if (ta == NONE or isinstance(ta, TOpt)) and \
                (tb == NONE or isinstance(tb, TOpt)) else z3.BoolVal(False)
        if ta == BOOL and tb in (INT, FLOAT):
            a, ta = coerce(a, INT), INT
        if tb == BOOL and ta in (INT, FLOAT):
            b, tb = coerce(b, INT), INT
        if ta in (INT, FLOAT) and tb in (INT, FLOAT) and ta != tb:
            return to_float(a).t == to_float(b).t
        if isinstance(ta, TOpt) and not isinstance(tb, TOpt):
            return z3.And(z3.Not(opt_is_none(a)), self.equal(opt_val(a), b, node))
        if isinstance(tb, TOpt) and not isinstance(ta, TOpt):
            return self.equal(b, a, node)
        if isinstance(ta, TTuple) and isinstance(tb, TTuple):
            if len(ta.items) != len(tb.items):
                return z3.BoolVal(False)
            return z3.And(*[self.equal(x, y, node) for x, y in zip(tuple_items(a), tuple_items(b))]) \
                if ta.items else z3.BoolVal(True)
        if isinstance(ta, TList) and isinstance(tb, TList):
            if ta.t == NONE or tb.t == NONE:
                return z3.And(list_len(a) == list_len(b), list_len(a) == 0) if ta.t != tb.t else \
                    list_len(a) == list_len(b)
            i = z3.Int("eqi!%d" % self.bound_counter())
            ea, eb = Val(ta.t, z3.Select(list_arr(a), i)), Val(tb.t, z3.Select(list_arr(b), i))
            return z3.And(list_len(a) == list_len(b),
                          z3.ForAll([i], z3.Implies(z3.And(0 <= i, i < list_len(a)), self.equal(ea, eb, node))))
        if isinstance(ta, TRef) and isinstance(tb, TRef):
            return self.ref_equal(a, b, node)
        if isinstance(ta, TSet) and isinstance(tb, TSet) and ta != tb:
            if ta.k == NONE and tb.k == NONE:
                return z3.BoolVal(True)
            if ta.k == NONE:
                return empty_set(tb).t == b.t
            if tb.k == NONE:
                return empty_set(ta).t == a.t
            return z3.BoolVal(False)
        if ta == tb:
            return term_of(a) == term_of(b)
        if ta == STR or tb == STR or isinstance(ta, (TList, TTuple)) or isinstance(tb, (TList, TTuple)):
            return z3.BoolVal(False)
        return self.equal_other(a, b, node)

    def equal_other(self, a, b, node):
        raise Unsupported("== on %s, %s" % (a.ty, b.ty))

    def ref_equal(self, a, b, node):
        # default object equality is identity unless the class defines __eq__ (then: contract)
        return a.t == b.t

    def bound_counter(self):
        self._bc = getattr(self, "_bc", 0) + 1
        return self._bc

    def order(self, sym, a, b, node):
        ta, tb = a.ty, b.ty
        if isinstance(ta, TOpt) or isinstance(tb, TOpt) or ta == NONE or tb == NONE:
            a, b = self.unwrap(a, node), self.unwrap(b, node)
            ta, tb = a.ty, b.ty
        if ta == BOOL:
            a, ta = coerce(a, INT), INT
        if tb == BOOL:
            b, tb = coerce(b, INT), INT
        if ta == INT and tb == INT:
            return {"<": a.t < b.t, "<=": a.t <= b.t, ">": a.t > b.t, ">=": a.t >= b.t}[sym]
        if ta in (INT, FLOAT) and tb in (INT, FLOAT):
            return f_cmp(sym, to_float(a).t, to_float(b).t)
        if ta == STR and tb == STR:
            lt = {"<": a.t < b.t, "<=": a.t <= b.t, ">": b.t < a.t, ">=": b.t <= a.t}[sym]
            return lt
        if isinstance(ta, TAbs) and ta == tb and ta.ordered:
            le = self.abs_le(ta)
            return {"<": z3.And(le(a.t, b.t), a.t != b.t), "<=": le(a.t, b.t),
                    ">": z3.And(le(b.t, a.t), a.t != b.t), ">=": le(b.t, a.t)}[sym]
        return self.order_other(sym, a, b, node)

    def abs_le(self, ty):
        s = sort(ty)
        f = z3.Function("le_" + ty.name, s, s, z3.BoolSort())
        if ty.name not in self.ctx.counter.get("__ord_axioms", {}):
            self.ctx.counter.setdefault("__ord_axioms", {})[ty.name] = True
            x, y, z = z3.Consts("ox oy oz", s)
            self.ctx.assume(z3.ForAll([x, y, z], z3.Implies(z3.And(f(x, y), f(y, z)), f(x, z))))
            self.ctx.assume(z3.ForAll([x, y], z3.Or(f(x, y), f(y, x))))
            self.ctx.assume(z3.ForAll([x, y], z3.Implies(z3.And(f(x, y), f(y, x)), x == y)))
        return f

    def contains(self, cont, item, node):
        ct = cont.ty
        if isinstance(ct, TDict):
            if ct.k == NONE:
                return z3.BoolVal(False)
            return z3.Select(dict_dom(cont), term_of(coerce(item, ct.k)))
        if isinstance(ct, TSet):
            return z3.Select(cont.t, term_of(coerce(item, ct.k)))
        if isinstance(ct, TList):
            i = z3.Int("ini!%d" % self.bound_counter())
            e = Val(ct.t, z3.Select(list_arr(cont), i))
            return z3.Exists([i], z3.And(0 <= i, i < list_len(cont), self.equal(e, item, node)))
        if isinstance(ct, TTuple):
            return z3.Or(*[self.equal(x, item, node) for x in tuple_items(cont)]) if ct.items else z3.BoolVal(False)
        if ct == STR and item.ty == STR:
            return z3.Contains(cont.t, item.t)
        if isinstance(ct, TRef):
            return self.ref_contains(cont, item, node)
        raise Unsupported("`in` on %s" % ct)

    def ref_contains(self, cont, item, node):
        r = self.call_method(cont, "__contains__", [item], {}, node)
        return truthy(r)

    # ------------------------------------------------------------ attribute / subscript
    def ev_Attribute(self, node):
        obj = self.ev(node.value)
        return self.getattr(obj, node.attr, node)

    def getattr(self, obj, attr, node):
        t = obj.ty
        if isinstance(t, TOpt) and isinstance(t.t, TRef):
            self.safety(z3.Not(opt_is_none(obj)), "AttributeError", "none-attr", node)
            obj = opt_val(obj)
            t = obj.ty
        if isinstance(t, TRef):
            attr2 = self.mangle(attr)
            fty = self.field_type(t.cls, attr2)
            if fty is not None:
                return self.ctx.read_field(obj.t, self.field_owner(t.cls, attr2), attr2, fty)
            cs = self.cspec(t.cls)
            if cs is not None and attr in cs.consts:
                return self.ev(self.parse(cs.consts[attr]))
            if cs is not None and not cs.record:
                ca = extract.class_attr(cs.module, cs.name, attr)
                if ca is not None:
                    mi, cd, expr = ca
                    self.push_frame(mi.name, cd.name, "<classattr>", None)
                    try:
                        return self.ev(expr)
                    finally:
                        self.frames.pop()
                m = extract.find_method(cs.module, cs.name, attr)
                if m is not None:
                    if any(isinstance(d, ast.Name) and d.id == "property" for d in m[2].decorator_list):
                        return self.call_method(obj, attr, [], {}, node)
                    return Val(TFun(), None, ("bound", obj, t.cls, attr))
                if cs.qual in self.stdlib_mixins and attr in self.stdlib_mixins[cs.qual]:
                    return Val(TFun(), None, ("bound", obj, t.cls, attr))
            raise Unsupported("attribute %s of %s" % (attr, t))
        if isinstance(t, TType):
            return self.type_attr(obj, attr, node)
        if isinstance(t, (TList, TDict, TSet)) or t == STR:
            return Val(TFun(), None, ("cmeth", obj, attr, node.value if isinstance(node, ast.Attribute) else None))
        if t == TERM:
            return self.term_attr(obj, attr, node)
        if isinstance(t, TAbs):
            return self.abs_attr(obj, attr, node)
        raise Unsupported("attribute %s of %s" % (attr, t))

    def abs_attr(self, obj, attr, node):
        """An attribute of an abstract object that is only passed around (e.g. a factory's callback methods stored in
        a token): an abstract value of the sort `<Sort>.<attr>`, determined by the object (uninterpreted function).
        Only for sorts the contract lists in `S.abs_attrs` - anything else stays outside the subset."""
        if obj.ty.name == "BinStr" and attr == "count":
            return Val(TFun(), None, ("spec", "__bincount", obj))
        allowed = getattr(self.spec, "abs_attrs", {})
        if isinstance(obj.ty, TAbs) and attr in allowed.get(obj.ty.name, {}):
            rty = TAbs(allowed[obj.ty.name][attr])          # {sort: {attribute: result sort}}
            f = z3.Function("absattr_%s_%s" % (obj.ty.name, attr), sort(obj.ty), sort(rty))
            self.assumptions.add("attribute %s of an abstract %s is an opaque value determined by the object (it is only "
                                 "stored, never called, in the verified functions)" % (attr, obj.ty.name))
            return Val(rty, f(obj.t))
        raise Unsupported("attribute %s of abstract %s" % (attr, obj.ty))

    def type_attr(self, obj, attr, node):
        p = obj.py
        if p[0] == "module":
            if p[1] == "math":
                import math
                if attr in ("pi", "e", "inf"):
                    return vfloat(getattr(math, attr)) if attr != "inf" else Val(FLOAT, XR().PInf)
                return Val(TFun(), None, ("builtin", "math." + attr))
            mi = extract.load_module(p[1])
            if mi is not None:
                if attr in mi.functions:
                    return Val(TFun(), None, ("func", p[1], attr))
                if attr in mi.classes:
                    return Val(TType(), None, ("class", p[1], attr))
            return Val(TFun(), None, ("builtin", p[1] + "." + attr))
        if p[0] == "class":
            ca = extract.class_attr(p[1], p[2], attr)
            if ca is not None:
                mi, cd, expr = ca
                self.push_frame(mi.name, cd.name, "<classattr>", None)
                try:
                    return self.ev(expr)
                finally:
                    self.frames.pop()
            m = extract.find_method(p[1], p[2], attr)
            if m is not None:
                return Val(TFun(), None, ("unbound", p[1], p[2], attr))
        raise Unsupported("attribute %s of %s" % (attr, p))

    def ev_Subscript(self, node):
        base = self.ev(node.value)
        if isinstance(node.slice, ast.Slice):
            return self.slice(base, node.slice, node)
        idx = self.ev(node.slice)
        return self.index(base, idx, node)

    def norm_index(self, idx, ln, node, what="index"):
        """Python index normalisation with the IndexError check."""
        if isinstance(idx.ty, TOpt) or idx.ty == NONE:
            idx = self.unwrap(idx, node)
        if idx.ty == BOOL:
            idx = coerce(idx, INT)
        if idx.ty != INT:
            raise Unsupported("index of type %s" % idx.ty)
        i = idx.t
        s = z3.simplify(i)
        if z3.is_int_value(s) and s.as_long() >= 0:
            self.safety(i < ln, "IndexError", what, node)
            return i
        if z3.is_int_value(s):
            self.safety(-i <= ln, "IndexError", what, node)
            return ln + i
        self.safety(z3.And(-ln <= i, i < ln), "IndexError", what, node)
        return z3.If(i < 0, ln + i, i)

    def index(self, base, idx, node):
        bt = base.ty
        if isinstance(bt, TOpt):
            base = self.unwrap(base, node)
            bt = base.ty
        if isinstance(bt, TList):
            if idx.ty == BOOL:
                idx = coerce(idx, INT)
            if isinstance(idx.ty, TOpt) and self.spec_mode:
                idx = opt_val(idx)
            if self.spec_mode:
                return Val(bt.t, z3.Select(list_arr(base), idx.t))
            i = self.norm_index(idx, list_len(base), node)
            return Val(bt.t, z3.Select(list_arr(base), i))
        if isinstance(bt, TTuple):
            k = self.const_int(idx)
            if k is None:
                raise Unsupported("tuple index not constant")
            items = tuple_items(base)
            if not -len(items) <= k < len(items):
                self.safety(z3.BoolVal(False), "IndexError", "tuple-index", node)
                raise PathEnd()
            return items[k]
        if isinstance(bt, TDict):
            if bt.k == NONE:
                self.safety(z3.BoolVal(False), "KeyError", "dict-key", node)
                raise PathEnd()
            k = coerce(idx, bt.k)
            self.safety(z3.Select(dict_dom(base), term_of(k)), "KeyError", "dict-key", node)
            return Val(bt.v, z3.Select(dict_map(base), term_of(k)))
        if bt == STR:
            if self.spec_mode:
                return vstr(z3.SubString(base.t, idx.t, 1))
            i = self.norm_index(idx, z3.Length(base.t), node, "str-index")
            return vstr(z3.SubString(base.t, i, 1))
        if isinstance(bt, TRef):
            cs = self.cspec(bt.cls)
            k = self.const_int(idx)
            if cs is not None and cs.record and k is not None and str(k) in cs.fields:
                return self.ctx.read_field(base.t, bt.cls, str(k), self.ty(cs.fields[str(k)]))
            return self.call_method(base, "__getitem__", [idx], {}, node)
        return self.index_other(base, idx, node)

    def index_other(self, base, idx, node):
        raise Unsupported("subscript on %s" % base.ty)

    def slice_bounds(self, sl, ln):
        """Python's clamping of slice bounds (step 1 only)."""
        if sl.step is not None:
            raise Unsupported("slice step")

        def clamp(e, default):
            if e is None:
                return default
            v = self.ev(e)
            if v.ty == NONE:
                return default
            i = v.t
            i = z3.If(i < 0, z3.If(i + ln < 0, z3.IntVal(0), i + ln), z3.If(i > ln, ln, i))
            return i
        lo = clamp(sl.lower, z3.IntVal(0))
        hi = clamp(sl.upper, ln)
        return lo, hi

    def slice(self, base, sl, node):
        bt = base.ty
        if bt == STR:
            ln = z3.Length(base.t)
            lo, hi = self.slice_bounds(sl, ln)
            return vstr(z3.SubString(base.t, lo, z3.If(hi > lo, hi - lo, z3.IntVal(0))))
        if isinstance(bt, TList):
            ln = list_len(base)
            lo, hi = self.slice_bounds(sl, ln)
            n = z3.If(hi > lo, hi - lo, z3.IntVal(0))
            res = self.ctx.fresh("slice", bt)
            i = z3.Int("sli!%d" % self.bound_counter())
            self.ctx.assume(list_len(res) == n)
            self.ctx.assume(z3.ForAll([i], z3.Implies(z3.And(0 <= i, i < n),
                                                      z3.Select(list_arr(res), i) == z3.Select(list_arr(base), lo + i))))
            return res
        raise Unsupported("slice of %s" % bt)

    def list_concat(self, a, b):
        t = a.ty if a.ty.t != NONE else b.ty
        if a.ty.t == NONE:
            return b
        if b.ty.t == NONE:
            return a
        res = self.ctx.fresh("concat", t)
        i = z3.Int("cci!%d" % self.bound_counter())
        la, lb = list_len(a), list_len(b)
        self.ctx.assume(list_len(res) == la + lb)
        ri = z3.Select(list_arr(res), i)
        self.ctx.assume(z3.ForAll([i], z3.Implies(z3.And(0 <= i, i < la + lb),
                                                  ri == z3.If(i < la, z3.Select(list_arr(a), i),
                                                              z3.Select(list_arr(b), i - la))),
                                  patterns=[ri]))
        return res

    def list_repeat(self, a, n):
        k = self.const_int(Val(INT, list_len(a)))
        if k != 1:
            raise Unsupported("list repeat of non-singleton")
        x = z3.Select(list_arr(a), 0)
        ln = z3.If(n.t > 0, n.t, z3.IntVal(0))
        return mk_list(a.ty, ln, z3.K(z3.IntSort(), x))

    def str_format(self, a, b, node):
        # "%s" formatting: an uninterpreted string (only used for messages)
        return self.ctx.fresh("fmt", STR)

    def ev_JoinedStr(self, node):
        return self.ctx.fresh("fstr", STR)

    # ------------------------------------------------------------ lvalue paths
    def lvalue_path(self, node):
        """Path (root, steps) for an assignable container expression, or None."""
        if isinstance(node, ast.Name):
            fr = self.fr
            if node.id in fr.alias:
                return fr.alias[node.id]
            if node.id in fr.locals:
                return (("local", fr, node.id), [])
            return None
        if isinstance(node, ast.Attribute):
            obj = self.ev(node.value)
            if isinstance(obj.ty, TRef):
                attr = self.mangle(node.attr)
                fty = self.field_type(obj.ty.cls, attr)
                if fty is not None:
                    return (("field", obj.t, self.field_owner(obj.ty.cls, attr), attr, fty), [])
            return None
        if isinstance(node, ast.Subscript) and not isinstance(node.slice, ast.Slice):
            p = self.lvalue_path(node.value)
            if p is None:
                return None
            base = self.read_path(p)
            if isinstance(base.ty, (TList, TDict)):
                idx = self.ev(node.slice)
                return (p[0], p[1] + [idx])
            return None
        return None

    def read_root(self, root):
        if root[0] == "local":
            fr, n = root[1], root[2]
            if n in fr.alias:
                return self.read_path(fr.alias[n])
            return fr.locals[n]
        return self.ctx.read_field(root[1], root[2], root[3], root[4])

    def read_path(self, path):
        v = self.read_root(path[0])
        for idx in path[1]:
            if isinstance(v.ty, TList):
                v = Val(v.ty.t, z3.Select(list_arr(v), idx.t))
            elif isinstance(v.ty, TDict):
                v = Val(v.ty.v, z3.Select(dict_map(v), term_of(coerce(idx, v.ty.k))))
            else:
                raise Unsupported("path step through %s" % v.ty)
        return v

    def write_path(self, path, val):
        root, steps = path
        if not steps:
            if root[0] == "local":
                fr, n = root[1], root[2]
                if n in fr.alias:
                    return self.write_path(fr.alias[n], val)
                if n in fr.param_names and not self.allow_param_mutation(fr, n):
                    raise Unsupported("mutation of container parameter %s" % n)
                fr.locals[n] = val
            else:
                self.ctx.write_field(root[1], root[2], root[3], root[4], val)
            return
        parent = self.read_path((root, steps[:-1]))
        idx = steps[-1]
        if isinstance(parent.ty, TList):
            new = mk_list(parent.ty, list_len(parent),
                          z3.Store(list_arr(parent), idx.t, term_of(coerce(val, parent.ty.t))))
        else:
            k = term_of(coerce(idx, parent.ty.k))
            new = mk_dict(parent.ty, dict_size(parent), dict_dom(parent),
                          z3.Store(dict_map(parent), k, term_of(coerce(val, parent.ty.v))))
        self.write_path((root, steps[:-1]), new)

    def allow_param_mutation(self, fr, n):
        return fr.spec is not None and n in fr.spec.mutates


def _bool_or():
    a, b = z3.Bools("a b")
    return z3.Or(a, b).decl()


def _bool_and():
    a, b = z3.Bools("a b")
    return z3.And(a, b).decl()


_andnot = None


def _bool_andnot():
    global _andnot
    if _andnot is None:
        _andnot = z3.RecFunction("andnot", z3.BoolSort(), z3.BoolSort(), z3.BoolSort())
        a, b = z3.Bools("a b")
        z3.RecAddDefinition(_andnot, [a, b], z3.And(a, z3.Not(b)))
    return _andnot
