"""Build real problog terms from the JSON description produced by termadt.concretize_term."""
from fractions import Fraction


def build(d):
    from problog import logic
    k = d[0]
    if k == "none":
        return None
    if k == "vint":
        return d[1]
    if k == "var":
        return logic.Var(d[1])
    if k == "cint":
        return logic.Constant(d[1])
    if k == "cfloat":
        return logic.Constant(float(Fraction(d[1])))
    if k == "cstr":
        return logic.Constant(d[1])
    if k == "struct":
        scls, functor, args = d[1], d[2], d[3]
        bargs = []
        for a in args:
            if "term" not in a:
                from pyvc.native import Skip
                raise Skip()
            bargs.append(build(a["term"]))
        if scls == 1 and len(bargs) == 1:
            return logic.Not(functor, bargs[0])
        if scls == 2 and len(bargs) == 2:
            return logic.And(bargs[0], bargs[1])
        if scls == 3 and len(bargs) == 2:
            return logic.Or(bargs[0], bargs[1])
        if scls == 4 and len(bargs) == 2:
            return logic.Clause(bargs[0], bargs[1])
        return logic.Term(functor, *bargs)
    raise ValueError(k)


# ---------------------------------------------------------------- native twins of the spec accessors
def tk(t):
    from problog import logic
    if t is None:
        return 0
    if type(t) == int:
        return 1
    if isinstance(t, logic.Var):
        return 2
    if isinstance(t, logic.Constant):
        v = t.functor
        if type(v) == int:
            return 3
        if type(v) == float:
            return 4
        return 5
    return 6


def t_vi(t):
    return t if type(t) == int else 0


def t_vname(t):
    return t.functor if tk(t) == 2 else ""


def t_ci(t):
    return t.functor if tk(t) == 3 else 0


def t_cf(t):
    return t.functor if tk(t) == 4 else 0.0


def t_cs(t):
    return t.functor if tk(t) == 5 else ""


def t_cls(t):
    from problog import logic
    for i, c in ((1, logic.Not), (2, logic.And), (3, logic.Or), (4, logic.Clause)):
        if isinstance(t, c):
            return i
    return 0


def t_functor(t):
    return t.functor if tk(t) == 6 else ""


def t_args(t):
    return list(t.args) if tk(t) == 6 else []


def t_arity(t):
    return len(t.args) if tk(t) == 6 else 0


def real(i):
    from fractions import Fraction
    return Fraction(i)


ACCESSORS = dict(tk=tk, t_vi=t_vi, t_vname=t_vname, t_ci=t_ci, t_cf=t_cf, t_cs=t_cs, t_cls=t_cls,
                 t_functor=t_functor, t_args=t_args, t_arity=t_arity, real=real)
