"""Symbolic executor: statements, loops (cut by invariants), assignment."""
import ast
import z3
from .types import *
from .values import *
from .state import *
from . import extract

NOOP_CALLS = {"print", "warn", "logging", "logger", "log", "warnings"}


class StmtMixin(object):
    def run_block(self, stmts):
        for st in stmts:
            self.run_stmt(st)

    def run_stmt(self, st):
        m = getattr(self, "st_" + type(st).__name__, None)
        if m is None:
            raise Unsupported("statement %s" % type(st).__name__)
        self.covered.add(id(st))
        m(st)
        self.after_stmt(st)

    def st_ImportFrom(self, st):
        """`from warnings import warn` inside a function: only names whose calls are dropped (NOOP_CALLS) may be
        imported this way; anything else stays outside the subset."""
        for a in st.names:
            if (a.asname or a.name) not in NOOP_CALLS:
                raise Unsupported("local import of %s" % a.name)
        self.dropped.add("local import of %s" % ", ".join(a.name for a in st.names))

    def after_stmt(self, st):
        fr = self.fr
        if fr.spec is None or not fr.spec.at or getattr(fr, "inlined", False):
            return
        try:
            text = ast.unparse(st)
        except Exception:
            return
        for snippet, assertion in fr.spec.at:
            if isinstance(st, (ast.If, ast.While, ast.For, ast.Try, ast.With)):
                continue
            if snippet in text:
                self.at_hits.add(snippet)
                self.spec_eval_oblige(assertion, "at[%s]" % snippet[:24], "ghost-assert", st)

    def spec_eval(self, src):
        self.spec_mode += 1
        try:
            return self.ev(self.parse(src))
        finally:
            self.spec_mode -= 1

    def spec_eval_node(self, node):
        self.spec_mode += 1
        try:
            return self.ev(node)
        finally:
            self.spec_mode -= 1

    def spec_eval_oblige(self, src, label, kind, node=None):
        v = self.spec_eval(src)
        self.ctx.oblige(truthy(v), "%s/%s" % (self.ctx.fnname, label), kind, getattr(node, "lineno", 0))

    # ------------------------------------------------------------ simple statements
    def st_Pass(self, st):
        pass

    def st_Expr(self, st):
        if isinstance(st.value, ast.Constant):
            return
        if isinstance(st.value, (ast.Yield,)):
            v = self.ev(st.value.value) if st.value.value is not None else VNONE
            self.do_yield(v)
            return
        if isinstance(st.value, ast.Call):
            f = st.value.func
            root = f
            while isinstance(root, ast.Attribute):
                root = root.value
            if isinstance(root, ast.Name) and root.id in NOOP_CALLS:
                self.dropped.add("call to %s(...) treated as no-op" % ast.unparse(f))
                return
        self.ev(st.value)

    def do_yield(self, v):
        fr = self.fr
        if fr.yielded is None:
            raise Unsupported("yield without a declared `yields` type")
        lst = fr.yielded
        n = list_len(lst)
        fr.yielded = mk_list(lst.ty, n + 1, z3.Store(list_arr(lst), n, term_of(coerce(v, lst.ty.t))))

    def st_Return(self, st):
        v = self.ev(st.value) if st.value is not None else VNONE
        raise ReturnSignal(v)

    def st_Break(self, st):
        raise BreakSignal()

    def st_Continue(self, st):
        raise ContinueSignal()

    def st_Global(self, st):
        raise Unsupported("global statement")

    def st_Assert(self, st):
        c = self.ev_bool(st.test)
        if self.in_lemma:
            self.ctx.oblige(c, "%s/assert#%d" % (self.ctx.fnname, self.site(st)), "lemma-assert", st.lineno)
        else:
            self.safety(c, "AssertionError", "assert", st)

    def st_Raise(self, st):
        if st.exc is None:
            raise RaiseSignal(self.fr.current_exc or "Exception", st.lineno)
        e = st.exc
        name = None
        if isinstance(e, ast.Call):
            f = e.func
            name = f.id if isinstance(f, ast.Name) else (f.attr if isinstance(f, ast.Attribute) else None)
            # evaluate the arguments: they may raise themselves (e.g. a.location on a float)
            for a in e.args:
                self.ev_msg_arg(a)
            for k in e.keywords:
                self.ev_msg_arg(k.value)
        elif isinstance(e, ast.Name):
            name = e.id
        if name is None:
            raise Unsupported("raise of a computed exception")
        raise RaiseSignal(name, st.lineno)

    def ev_msg_arg(self, a):
        try:
            self.ev(a)
        except Unsupported:
            self.dropped.add("exception-message argument `%s` not evaluated" % ast.unparse(a)[:60])

    def st_Delete(self, st):
        for t in st.targets:
            if isinstance(t, ast.Subscript) and isinstance(t.slice, ast.Slice):
                p = self.lvalue_path(t.value)
                cont = self.ev(t.value)
                if not isinstance(cont.ty, TList) or p is None:
                    raise Unsupported("del of a slice of %s" % cont.ty)
                ln = list_len(cont)
                lo, hi = self.slice_bounds(t.slice, ln)
                cnt = z3.If(hi > lo, hi - lo, z3.IntVal(0))
                res = self.ctx.fresh("delslice", cont.ty)
                i = z3.Int("dsi!%d" % self.bound_counter())
                ri = z3.Select(list_arr(res), i)
                self.ctx.assume(list_len(res) == ln - cnt)
                self.ctx.assume(z3.ForAll([i], z3.Implies(z3.And(0 <= i, i < ln - cnt),
                                                          ri == z3.If(i < lo, z3.Select(list_arr(cont), i),
                                                                      z3.Select(list_arr(cont), i + cnt))),
                                          patterns=[ri]))
                self.write_path(p, res)
                continue
            if isinstance(t, ast.Subscript):
                p = self.lvalue_path(t.value)
                cont = self.ev(t.value)
                idx = self.ev(t.slice)
                if isinstance(cont.ty, TDict):
                    k = term_of(coerce(idx, cont.ty.k))
                    self.safety(z3.Select(dict_dom(cont), k), "KeyError", "del-key", t)
                    new = mk_dict(cont.ty, dict_size(cont) - 1, z3.Store(dict_dom(cont), k, z3.BoolVal(False)),
                                  dict_map(cont))
                    if p is None:
                        raise Unsupported("del on non-lvalue")
                    self.write_path(p, new)
                    continue
            raise Unsupported("del %s" % ast.unparse(t))

    def st_With(self, st):
        for item in st.items:
            ce = item.context_expr
            if isinstance(ce, ast.Call) and isinstance(ce.func, ast.Name) and ce.func.id == "Timer":
                self.dropped.add("with Timer(...) treated as a plain block")
                continue
            raise Unsupported("with %s" % ast.unparse(ce)[:40])
        self.run_block(st.body)

    # ------------------------------------------------------------ assignment
    def st_Assign(self, st):
        v = self.ev(st.value)
        src = st.value
        for tgt in st.targets:
            self.assign(tgt, v, src)

    def st_AnnAssign(self, st):
        if st.value is not None:
            self.assign(st.target, self.ev(st.value), st.value)

    def assign(self, tgt, v, src=None):
        if isinstance(tgt, ast.Name):
            fr = self.fr
            fr.alias.pop(tgt.id, None)
            if isinstance(v.ty, (TList, TDict, TSet)) and src is not None and not self.spec_mode:
                p = self.lvalue_path(src) if isinstance(src, (ast.Name, ast.Attribute, ast.Subscript)) else None
                if p is not None and not (p[0][0] == "local" and p[0][2] == tgt.id and not p[1]):
                    fr.alias[tgt.id] = p
                    fr.locals.pop(tgt.id, None)
                    return
            fr.locals[tgt.id] = v
            return
        if isinstance(tgt, (ast.Tuple, ast.List)):
            if isinstance(v.ty, TTuple):
                items = tuple_items(v)
            elif isinstance(v.ty, TRef) and self.cspec(v.ty.cls) is not None and self.cspec(v.ty.cls).record:
                cs = self.cspec(v.ty.cls)
                items = [self.ctx.read_field(v.t, v.ty.cls, str(i), self.ty(cs.fields[str(i)]))
                         for i in range(len(cs.fields))]
            elif isinstance(v.ty, TList):
                n = len(tgt.elts)
                self.safety(list_len(v) == n, "ValueError", "unpack", tgt)
                items = [Val(v.ty.t, z3.Select(list_arr(v), i)) for i in range(n)]
            else:
                raise Unsupported("unpacking %s" % v.ty)
            if len(items) != len(tgt.elts):
                self.safety(z3.BoolVal(False), "ValueError", "unpack", tgt)
                raise PathEnd()
            for t, it in zip(tgt.elts, items):
                self.assign(t, it)
            return
        if isinstance(tgt, ast.Attribute):
            obj = self.ev(tgt.value)
            if isinstance(obj.ty, TRef):
                attr = self.mangle(tgt.attr)
                fty = self.field_type(obj.ty.cls, attr)
                if fty is None:
                    raise Unsupported("store to undeclared field %s.%s" % (obj.ty.cls, attr))
                if v.py == "emptydict":
                    v = self.empty_dict(fty)
                if isinstance(v.ty, TList) and v.ty.t == NONE and isinstance(fty, TList):
                    v = mk_list(fty, z3.IntVal(0), list_arr(self.ctx.fresh("empty", fty)))
                self.ctx.write_field(obj.t, self.field_owner(obj.ty.cls, attr), attr, fty, v)
                return
            raise Unsupported("attribute store on %s" % obj.ty)
        if isinstance(tgt, ast.Subscript):
            base = self.ev(tgt.value)
            if isinstance(base.ty, TRef):
                cs = self.cspec(base.ty.cls)
                idx = self.ev(tgt.slice)
                k = self.const_int(idx)
                if cs is not None and cs.record and k is not None:
                    self.ctx.write_field(base.t, base.ty.cls, str(k), self.ty(cs.fields[str(k)]), v)
                    return
                self.call_method(base, "__setitem__", [idx, v], {}, tgt)
                return
            p = self.lvalue_path(tgt.value)
            if p is None:
                raise Unsupported("subscript store on non-lvalue %s" % ast.unparse(tgt.value))
            idx = self.ev(tgt.slice)
            if isinstance(base.ty, TList):
                i = self.norm_index(idx, list_len(base), tgt, "store-index")
                self.write_path((p[0], p[1] + [Val(INT, i)]), v)
                return
            if isinstance(base.ty, TDict):
                if base.py == "emptydict":
                    raise Unsupported("store into untyped dict literal")
                k = term_of(coerce(idx, base.ty.k))
                had = z3.Select(dict_dom(base), k)
                new = mk_dict(base.ty, z3.If(had, dict_size(base), dict_size(base) + 1),
                              z3.Store(dict_dom(base), k, z3.BoolVal(True)),
                              z3.Store(dict_map(base), k, term_of(coerce(v, base.ty.v))))
                self.write_path(p, new)
                return
            raise Unsupported("subscript store on %s" % base.ty)
        raise Unsupported("assignment target %s" % type(tgt).__name__)

    def empty_dict(self, dty):
        d = self.ctx.fresh("emptyd", dty)
        return mk_dict(dty, z3.IntVal(0), z3.K(sort(dty.k), z3.BoolVal(False)), dict_map(d))

    def st_AugAssign(self, st):
        opn = type(st.op).__name__
        tgt = st.target
        cur = self.ev(tgt)
        if isinstance(cur.ty, TRef) and opn == "Add" and isinstance(st.value, ast.List):
            cs = self.cspec(cur.ty.cls)
            if cs is not None and cs.record and len(st.value.elts) == len(cs.fields):
                # `cell += [a, b, c]` on a freshly allocated empty record: fills the fields in place
                items = [self.ev(e) for e in st.value.elts]
                for i, it in enumerate(items):
                    self.ctx.write_field(cur.t, cur.ty.cls, str(i), self.ty(cs.fields[str(i)]), it)
                return
        rhs = self.ev(st.value)
        if isinstance(cur.ty, TRef):
            # in-place operator on an object: __iadd__/__ior__/... or record `end += [..]`
            cs = self.cspec(cur.ty.cls)
            if cs is not None and cs.record and opn == "Add" and isinstance(rhs.ty, TList):
                n = len(cs.fields)
                for i in range(n):
                    fty = self.ty(cs.fields[str(i)])
                    self.ctx.write_field(cur.t, cur.ty.cls, str(i), fty, Val(rhs.ty.t, z3.Select(list_arr(rhs), i)))
                self.ctx.assume(list_len(rhs) == n)
                return
            name = {"BitOr": "__ior__", "BitAnd": "__iand__", "Add": "__iadd__", "Sub": "__isub__"}.get(opn)
            if name is None:
                raise Unsupported("augmented %s on object" % opn)
            r = self.call_method(cur, name, [rhs], {}, st)
            self.assign(tgt, r)
            return
        if isinstance(cur.ty, TList) and opn == "Add":
            new = self.list_concat(cur, rhs)
            p = self.lvalue_path(tgt)
            if p is None:
                raise Unsupported("+= on non-lvalue list")
            self.write_path(p, new)
            return
        new = self.binop(opn, cur, rhs, st)
        self.assign(tgt, new)

    # ------------------------------------------------------------ control flow
    def st_If(self, st):
        if self.ctx.decide(self.ev_bool(st.test)):
            self.run_block(st.body)
        else:
            self.run_block(st.orelse)

    def st_Try(self, st):
        names = []
        for h in st.handlers:
            if h.type is None:
                names.append(None)
            elif isinstance(h.type, ast.Tuple):
                names.extend(self.exc_name(e) for e in h.type.elts)
            else:
                names.append(self.exc_name(h.type))
        fr = self.fr
        fr.handlers.append(names)
        try:
            try:
                self.run_block(st.body)
            finally:
                fr.handlers.pop()
        except RaiseSignal as sig:
            for h in st.handlers:
                hn = [None] if h.type is None else ([self.exc_name(e) for e in h.type.elts]
                                                    if isinstance(h.type, ast.Tuple) else [self.exc_name(h.type)])
                if any(x is None or extract.exc_is_subclass(sig.exc, x) for x in hn):
                    if h.name:
                        fr.locals[h.name] = Val(TType(), None, ("excinst", sig.exc))
                    prev = getattr(fr, "current_exc", None)
                    fr.current_exc = sig.exc
                    try:
                        self.run_block(h.body)
                    finally:
                        fr.current_exc = prev
                    break
            else:
                if st.finalbody:
                    self.run_block(st.finalbody)
                raise
        else:
            self.run_block(st.orelse)
        if st.finalbody:
            self.run_block(st.finalbody)

    def exc_name(self, e):
        if isinstance(e, ast.Name):
            return e.id
        if isinstance(e, ast.Attribute):
            return e.attr
        raise Unsupported("computed exception class")

    # ------------------------------------------------------------ loops
    def assigned_names(self, stmts):
        out = set()

        class V(ast.NodeVisitor):
            def visit_Name(s, n):
                if isinstance(n.ctx, (ast.Store, ast.Del)):
                    out.add(n.id)

            def visit_FunctionDef(s, n):
                pass

            def visit_Lambda(s, n):
                pass

            def visit_ListComp(s, n):
                pass

            def visit_GeneratorExp(s, n):
                pass
        for s in stmts:
            V().visit(s)
        # containers mutated through method calls / subscript stores on a local name
        for s in stmts:
            for n in ast.walk(s):
                if isinstance(n, ast.Call) and isinstance(n.func, ast.Attribute) and isinstance(n.func.value, ast.Name):
                    if n.func.attr in ("append", "extend", "pop", "add", "discard", "remove", "insert", "clear",
                                       "update", "popleft", "sort", "reverse", "setdefault"):
                        out.add(n.func.value.id)
                if isinstance(n, (ast.Subscript,)) and isinstance(n.ctx, ast.Store):
                    r = n.value
                    while isinstance(r, ast.Subscript):
                        r = r.value
                    if isinstance(r, ast.Name):
                        out.add(r.id)
        return out

    def stored_fields(self, stmts):
        """Heap fields the loop body may write, found syntactically: obj.f = .., obj.f[..] = ..,
        obj.f.append(..) and the `modifies` of contracts of called methods."""
        out = set()
        for s in stmts:
            for n in ast.walk(s):
                tgt = None
                if isinstance(n, ast.Attribute) and isinstance(n.ctx, ast.Store):
                    tgt = n
                elif isinstance(n, ast.Subscript) and isinstance(n.ctx, ast.Store):
                    r = n.value
                    while isinstance(r, ast.Subscript):
                        r = r.value
                    tgt = r if isinstance(r, ast.Attribute) else None
                    if isinstance(r, ast.Name):
                        out.add(("rec?", r.id))
                elif isinstance(n, ast.Call) and isinstance(n.func, ast.Attribute):
                    if isinstance(n.func.value, ast.Attribute) and n.func.attr in (
                            "append", "extend", "pop", "add", "discard", "remove", "insert", "clear", "update"):
                        tgt = n.func.value
                    out.add(("call", n.func.attr))
                elif isinstance(n, ast.AugAssign):
                    if isinstance(n.target, ast.Attribute):
                        tgt = n.target
                if tgt is not None:
                    out.add(("attr", self.mangle(tgt.attr)))
        return out

    def loop_spec(self, st):
        fr = self.fr
        k = fr.loop_counter
        fr.loop_counter += 1
        ls = None
        if fr.spec is not None:
            ls = fr.spec.loops.get(k)
        if ls is None:
            raise StaleContract("no loop contract for loop #%d of %s" % (k, fr.fname))
        self.loops_bound.add((fr.fname, k))
        return k, ls

    def havoc_loop_state(self, body_stmts, ls, extra_names=()):
        fr = self.fr
        names = self.assigned_names(body_stmts) | set(extra_names)
        for n in sorted(names):
            if n in fr.alias:
                # the alias target is havocked through its root below if it is a field
                root = fr.alias[n][0]
                if root[0] == "local" and root[2] in fr.locals:
                    names.add(root[2])
                continue
        for n in sorted(names):
            if n in fr.locals and not isinstance(fr.locals[n].ty, (TFun, TType)) and fr.locals[n].ty != NONE:
                fr.locals[n] = self.ctx.fresh(n, fr.locals[n].ty)
            elif n in fr.locals and fr.locals[n].ty == NONE and n in ls.ghost_types():
                fr.locals[n] = self.ctx.fresh(n, self.ty(ls.ghost_types()[n]))
        # heap
        stored = self.stored_fields(body_stmts)
        fields = set()
        for kind, name in stored:
            if kind == "attr":
                for (cls, f) in list(self.all_declared_fields()):
                    if f == name:
                        fields.add((cls, f))
            elif kind == "call":
                for fs in self.specs_by_fname(name):
                    for m in fs.modifies:
                        fields |= self.resolve_modifies_any(m, fs)
        for m in ls.modifies:
            cls, f = m.split(".")
            if f == "*":
                cs = self.cspec(cls)
                for ff in list(cs.fields) + list(cs.ghost):
                    fields.add((cls, ff))
            else:
                fields.add((cls, f))
        for (cls, f) in sorted(fields):
            fty = self.field_type(cls, f)
            self.ctx.havoc_field(cls, f, fty)
        if fr.yielded is not None:
            fr.yielded = self.ctx.fresh("yielded", fr.yielded.ty)

    def all_declared_fields(self):
        for cn, cs in self.spec.classes.items():
            for f in cs.fields:
                yield (cn, f)
            for f in cs.ghost:
                yield (cn, f)

    def specs_by_fname(self, name):
        return [fs for fs in self.all_fnspecs() if fs.fname == name]

    def resolve_modifies_any(self, m, fs):
        out = set()
        if m.startswith("self."):
            out.add((fs.clsname, self.mangle_for(fs.clsname, m[5:])))
        else:
            cls, f = m.split(".")
            if f == "*":
                cs = self.cspec(cls)
                for ff in list(cs.fields) + list(cs.ghost):
                    out.add((cls, ff))
            else:
                out.add((cls, f))
        return out

    def mangle_for(self, cls, attr):
        if attr.startswith("__") and not attr.endswith("__"):
            return "_%s%s" % (cls.lstrip("_"), attr)
        return attr

    def check_invariants(self, ls, k, phase, node):
        fr = self.fr
        for i, inv in enumerate(ls.invariant):
            self.spec_eval_oblige(inv, "loop%d-inv[%d]-%s" % (k, i, phase), "inv-" + phase, node)

    def assume_invariants(self, ls):
        for inv in ls.invariant:
            self.ctx.assume(truthy(self.spec_eval(inv)))

    def st_While(self, st):
        k, ls = self.loop_spec(st)
        fr = self.fr
        for g, (init, _) in ls.ghost.items():
            fr.locals[g] = self.spec_eval(init)
        self.check_invariants(ls, k, "init", st)
        self.havoc_loop_state(st.body, ls, extra_names=list(ls.ghost))
        self.assume_invariants(ls)
        dec0 = self.spec_eval(ls.decreases).t if ls.decreases else None
        if self.ctx.decide(self.ev_bool(st.test)):
            try:
                try:
                    self.run_block(st.body)
                except ContinueSignal:
                    pass
                for g, (_, upd) in ls.ghost.items():
                    fr.locals[g] = self.spec_eval(upd)
                self.check_invariants(ls, k, "pres", st)
                if dec0 is not None:
                    d1 = self.spec_eval(ls.decreases).t
                    self.ctx.oblige(z3.And(dec0 >= 0, d1 < dec0), "%s/loop%d-decreases" % (self.ctx.fnname, k),
                                    "decreases", st.lineno)
                raise PathEnd()
            except BreakSignal:
                return
        else:
            self.run_block(st.orelse)

    def iter_source(self, node):
        """Describe an iterable as (length term, element getter(i) -> Val, stability path or None)."""
        if isinstance(node, ast.Call) and isinstance(node.func, ast.Name):
            fn = node.func.id
            if fn == "range":
                args = [self.ev(a) for a in node.args]
                if len(args) == 1:
                    lo, hi = z3.IntVal(0), args[0].t
                elif len(args) == 2:
                    lo, hi = args[0].t, args[1].t
                else:
                    raise Unsupported("range with step")
                n = z3.If(hi > lo, hi - lo, z3.IntVal(0))
                return n, (lambda i: vint(lo + i)), None
            if fn == "enumerate":
                n, get, p = self.iter_source(node.args[0])
                start = self.ev(node.args[1]).t if len(node.args) > 1 else z3.IntVal(0)
                return n, (lambda i: mk_tuple([vint(start + i), get(i)])), p
            if fn == "zip":
                srcs = [self.iter_source(a) for a in node.args]
                n = srcs[0][0]
                for s in srcs[1:]:
                    n = z3.If(s[0] < n, s[0], n)
                return n, (lambda i: mk_tuple([s[1](i) for s in srcs])), None
            if fn == "reversed":
                n, get, p = self.iter_source(node.args[0])
                return n, (lambda i: get(n - 1 - i)), p
        v = self.ev(node)
        return self.iter_value(v, node)

    def iter_value(self, v, node):
        if isinstance(v.ty, TList):
            if v.ty.t == NONE:
                return z3.IntVal(0), (lambda i: VNONE), None
            return list_len(v), (lambda i: Val(v.ty.t, z3.Select(list_arr(v), i))), None
        if isinstance(v.ty, TRef):
            lst = self.call_method(v, "__iter__", [], {}, node)
            return self.iter_value(lst, node)
        if isinstance(v.ty, TTuple):
            items = tuple_items(v)
            if len(items) <= 8 and len(set(x.ty.name for x in items)) <= 1 and items:
                t = items[0].ty
                arr = z3.K(z3.IntSort(), term_of(items[0]))
                for i, it in enumerate(items):
                    arr = z3.Store(arr, i, term_of(it))
                return z3.IntVal(len(items)), (lambda i: Val(t, z3.Select(arr, i))), None
        return self.iter_other(v, node)

    def iter_other(self, v, node):
        raise Unsupported("iteration over %s" % v.ty)

    def st_For(self, st):
        k, ls = self.loop_spec(st)
        fr = self.fr
        n, get, _ = self.iter_source(st.iter)
        n = z3.simplify(n)
        idx = ls.index
        fr.locals[idx] = vint(0)
        fr.locals["_n%d" % k] = vint(n)
        for g, (init, _) in ls.ghost.items():
            fr.locals[g] = self.spec_eval(init)
        self.check_invariants(ls, k, "init", st)
        tnames = [x.id for x in ast.walk(st.target) if isinstance(x, ast.Name)]
        self.havoc_loop_state(st.body, ls, extra_names=[idx] + tnames + list(ls.ghost))
        fr.locals[idx] = self.ctx.fresh(idx, INT)
        kk = fr.locals[idx].t
        self.ctx.assume(z3.And(0 <= kk, kk <= n))
        self.assume_invariants(ls)
        if self.ctx.decide(kk < n):
            try:
                self.assign(st.target, get(kk))
                try:
                    self.run_block(st.body)
                except ContinueSignal:
                    pass
                fr.locals[idx] = vint(kk + 1)
                for g, (_, upd) in ls.ghost.items():
                    fr.locals[g] = self.spec_eval(upd)
                self.check_invariants(ls, k, "pres", st)
                raise PathEnd()
            except BreakSignal:
                return
        else:
            self.ctx.assume(kk == n)
            self.run_block(st.orelse)
