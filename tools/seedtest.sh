#!/bin/sh
# tools/seedtest.sh <seed-dir> [property]  : apply a seeded change to /repo, confirm its demonstration fails with it
# and passes without it, run the property's check against it, and undo the change straight afterwards.
# Prints one summary line:  SEED <dir> property=<id> demo_clean=<rc> demo_patched=<rc> check_exit=<rc> <VIOLATION lines>
SEED="$1"
PID="${2:-$(python3 -c "import json,sys;print(json.load(open('$SEED/meta.json'))['property'])")}"
cd /repo || exit 3
if ! git diff --quiet; then echo "repo working tree not clean"; exit 3; fi
DEMO_CLEAN=$(PYTHONPATH=/repo /venv/bin/python -W ignore "$SEED/demo.py" >/dev/null 2>&1; echo $?)
if ! git apply "$SEED/patch.diff" 2>/tmp/seed_apply.err; then
  echo "SEED $SEED property=$PID patch does not apply: $(head -1 /tmp/seed_apply.err)"; exit 2
fi
DEMO_PATCHED=$(PYTHONPATH=/repo /venv/bin/python -W ignore "$SEED/demo.py" >/dev/null 2>&1; echo $?)
TMP=$(mktemp -d /tmp/seedrun.XXXXXX)
cd /verif
PYVC_EVIDENCE_DIR="$TMP/evidence" PYVC_REPLAY_DIR="$TMP/replays" ./check "$PID" > "$TMP/out.txt" 2>&1
RC=$?
git -C /repo checkout -- .
V=$(grep -c "^VIOLATION" "$TMP/out.txt")
echo "SEED $SEED property=$PID demo_clean=$DEMO_CLEAN demo_patched=$DEMO_PATCHED check_exit=$RC violations=$V"
grep "^VIOLATION\|^FAILED-OBLIGATION\|^UNDECIDED\|^CHECKER" "$TMP/out.txt" | cut -c1-260 | head -${SHOW:-4}
rm -rf "$TMP"
