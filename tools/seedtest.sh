#!/bin/sh
# tools/seedtest.sh <seed-dir> [property] : apply a seeded change to a scratch copy of /repo (outside /repo and /verif,
# removed afterwards), confirm its demonstration fails with it and passes without it, and run the property's check
# against the changed copy (PYVC_REPO).  /repo itself is never touched, so this can run next to other checks.
# Prints one summary line:  SEED <dir> property=<id> demo_clean=<rc> demo_patched=<rc> check_exit=<rc> violations=<n>
SEED="$1"
PID="${2:-$(python3 -c "import json,sys;print(json.load(open('$SEED/meta.json'))['property'])")}"
TMP=$(mktemp -d /tmp/seedrun.XXXXXX)
trap 'rm -rf "$TMP"' EXIT
mkdir -p "$TMP/repo"
rsync -a --exclude .git --exclude '*.pyc' --exclude __pycache__ /repo/ "$TMP/repo/"
DEMO=demo.py
[ -f "$SEED/$DEMO" ] || DEMO=$(cd "$SEED" && ls demo* | head -1)
DEMO_CLEAN=$(cd "$TMP" && PYTHONPATH=/repo timeout 600 /venv/bin/python -W ignore "$SEED/$DEMO" >/dev/null 2>&1; echo $?)
if ! (cd "$TMP/repo" && git apply "$SEED/patch.diff" 2>"$TMP/apply.err"); then
  echo "SEED $SEED property=$PID patch does not apply: $(head -1 "$TMP/apply.err")"; exit 2
fi
DEMO_PATCHED=$(cd "$TMP" && PYTHONPATH="$TMP/repo" timeout 600 /venv/bin/python -W ignore "$SEED/$DEMO" >/dev/null 2>&1; echo $?)
cd "$(dirname "$0")/.."
PYVC_REPO="$TMP/repo" PYVC_EVIDENCE_DIR="$TMP/evidence" PYVC_REPLAY_DIR="$TMP/replays" ./check "$PID" --tier "${TIER:-quick}" > "$TMP/out.txt" 2>&1
RC=$?
V=$(grep -c "^VIOLATION" "$TMP/out.txt")
echo "SEED $SEED property=$PID demo_clean=$DEMO_CLEAN demo_patched=$DEMO_PATCHED check_exit=$RC violations=$V"
grep "^VIOLATION\|^FAILED-OBLIGATION\|^UNDECIDED\|^CHECKER" "$TMP/out.txt" | cut -c1-260 | head -${SHOW:-4}
