#!/bin/sh
# tools/probe.sh [ids...]: run every claimed check's quick command the way the acceptance run does (evidence removed
# first, sequentially, VERIF_SEED/VERIF_TIER exported), print one line per check and fail on any alarm.
HERE="$(cd "$(dirname "$0")/.." && pwd)"
cd "$HERE" || exit 3
export VERIF_SEED="${VERIF_SEED:-1}" VERIF_TIER="${VERIF_TIER:-quick}" PIP_NO_INDEX=1 CARGO_NET_OFFLINE=true GOPROXY=off
OUT="${PROBE_OUT:-$(mktemp -d)}"
mkdir -p "$OUT"
ids="$*"
[ -n "$ids" ] || ids="$(jq -r '.checks[].property_id' MANIFEST.json)"
bad=0
for id in $ids; do
    cmd="$(jq -r --arg id "$id" '.checks[] | select(.property_id==$id) | .quick_cmd' MANIFEST.json)"
    [ -n "$cmd" ] || cmd="./check $id --tier quick"
    rm -f "evidence/$id.json"
    t0=$(date +%s)
    sh -c "$cmd" > "$OUT/$id.log" 2>&1
    rc=$?
    t1=$(date +%s)
    nv=$(grep -c '^VIOLATION' "$OUT/$id.log")
    nk=$(grep -c '^KNOWN-FINDING' "$OUT/$id.log")
    ev=missing
    [ -s "evidence/$id.json" ] && ev=written
    echo "$id exit=$rc violations=$nv known=$nk evidence=$ev $((t1 - t0))s"
    if [ "$rc" != 0 ] || [ "$nv" != 0 ] || [ "$ev" != written ]; then bad=1; fi
done
echo "logs in $OUT"
exit $bad
