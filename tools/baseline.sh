#!/bin/sh
# Run the repository's pinned test suite (guard off) and compare with /root/.vp/BASELINE.json stable_pass.
OUT=${1:-/tmp/baseline_run}
mkdir -p "$OUT"
cd /repo && env -u ML_KULEUVEN_PROBLOG_VERIF /venv/bin/python -m pytest -q -p no:cacheprovider --timeout=900 \
  --continue-on-collection-errors --junitxml="$OUT/junit.xml" > "$OUT/log.txt" 2>&1
python3 - "$OUT/junit.xml" <<'PY'
import json, sys, xml.etree.ElementTree as ET
base = set(json.load(open('/root/.vp/BASELINE.json'))['stable_pass'])
t = ET.parse(sys.argv[1])
passed = set()
for tc in t.iter('testcase'):
    if not any(c.tag in ('failure', 'error', 'skipped') for c in tc):
        passed.add('%s::%s' % (tc.get('classname'), tc.get('name')))
missing = sorted(base - passed)
print('baseline %d, passed now %d, missing %d' % (len(base), len(base & passed), len(missing)))
for m in missing[:20]:
    print('  MISSING', m)
PY
# sub-test failures do not show in the junit test cases: the summary line must not mention failures either
tail -1 "$OUT/log.txt" | grep -q "failed\|error" && { echo "SUMMARY HAS FAILURES:"; grep "^SUBFAILED\|^FAILED\|^ERROR" "$OUT/log.txt" | head -20; tail -1 "$OUT/log.txt"; }
true
