#!/usr/bin/env python3
"""tools/mkseedtask.py <property-id> [n]: write /tmp/seed_<id>/TASK.md, the brief handed to an independent
sub-agent that is asked for property-breaking changes (it sees the property text and its own worktree only)."""
import json
import os
import sys

HERE = os.path.dirname(os.path.dirname(os.path.abspath(__file__)))
pid = sys.argv[1]
n = int(sys.argv[2]) if len(sys.argv) > 2 else 2
p = [json.loads(l) for l in open(os.path.join(HERE, "properties.jsonl")) if json.loads(l)["id"] == pid][0]
wt = "/tmp/wt_%s" % pid
out = "/tmp/seed_%s" % pid
os.makedirs(out, exist_ok=True)
text = """# Task: seed %(n)d realistic property-breaking changes into ProbLog (property %(pid)s)

You work ONLY in the git worktree `%(wt)s` (a checkout of ML-KULeuven/problog, a probabilistic Prolog in Python).
Do not touch /repo, /verif or any other directory except `%(out)s` (your output directory).
Never use `git stash`.  The Python to use is `/venv/bin/python`; ALWAYS run with `PYTHONPATH=%(wt)s` and from
inside `%(wt)s` so that the worktree's `problog` package is imported (check once with
`PYTHONPATH=%(wt)s /venv/bin/python -c "import problog; print(problog.__file__)"`).  There is no network.

## The property

**%(title)s**

%(statement)s

Quantified over: %(quant)s

Code it is anchored in: %(files)s
Mechanisms: %(mech)s

## What to produce

%(n)d *different* changes (bugs) to the source under `%(wt)s/problog` (not to tests), each of which
* breaks the property above on some input, schedule or history,
* still imports/compiles and still passes the existing test suite
  (`cd %(wt)s && PYTHONPATH=%(wt)s /venv/bin/python -m pytest -q -p no:cacheprovider --timeout=900 -x problog/test`,
  about 2-3 minutes; all tests that pass on the clean checkout must still pass),
* looks like a realistic regression a maintainer could introduce (an optimisation, a refactoring slip, a wrong
  boundary, a forgotten case, a cache key that is too coarse, two sites that are each fine alone), and
* needs something specific to manifest - an unusual input, a particular order, a multi-step sequence, a corner
  of the input space - NOT something ordinary use or the simplest example would expose at once.  Prefer changes in
  different functions / mechanisms for the different seeds.  Keep each patch small (typically 1-15 lines).

For each change k = 1..%(n)d create the directory `%(out)s/<k>/` with
* `patch.diff` - `git diff` of the change against the clean checkout (must apply with `git apply` on a clean tree),
* `demo.py` - a small stand-alone program using only the public behaviour of `problog` that exits 0 on the clean
  checkout and exits non-zero (assertion failure) with the patch applied; it must demonstrate a violation of the
  property as stated (not merely a changed internal detail),
* `meta.json` - `{"property": "%(pid)s", "summary": "<what was changed and where>", "needs": "<what is needed for it to
  manifest>", "ran": "<the commands you ran and their outcome: tests with the patch, demo clean, demo patched>"}`.

Work one change at a time: edit, run the demo, run the test suite, save `git diff > %(out)s/<k>/patch.diff`, then
`git checkout -- .` to return to the clean tree before the next one.  Verify at the end that each patch applies to the
clean tree, that its demo fails with it and passes without it.  Leave the worktree clean.  Be economical: do not
run the full suite more often than needed.  Finish with a 5-line summary (one line per change).
""" % dict(n=n, pid=pid, wt=wt, out=out, title=p["title"], statement=p["statement"],
           quant=p["quantifier"]["text"], files=", ".join(p["anchors"].get("files", [])),
           mech="; ".join("%s (%s)" % (m["name"], m.get("where", "")) for m in p["anchors"].get("mechanism", [])))
open(os.path.join(out, "TASK.md"), "w").write(text)
print(os.path.join(out, "TASK.md"))
