#!/usr/bin/env python3
"""Regenerate /verif/MANIFEST.json from the table below (single source of truth for claims)."""
import json
import os

HERE = os.path.dirname(os.path.dirname(os.path.abspath(__file__)))
props = [json.loads(l) for l in open(os.path.join(HERE, "properties.jsonl"))]

PROOF_NOTE = ("Trusted base: the pyvc encoder (Python subset -> SMT, cross-checked against CPython by the encoder "
              "self-test), z3 5.1.0 / cvc5 1.4.0, the assumptions listed in the evidence file (A-float: floats as "
              "extended reals; A-alias; exact-class dispatch; CPython built-ins as modelled). Bounded stand-ins "
              "listed in the evidence are never counted as proved.")

CLAIMS = {
    "C12": dict(
        category="proof",
        text="Every method of the probability, log-probability, MPE-state and base Semiring classes is executed "
             "symbolically from the current /repo source; the semiring laws, the base-class defaults "
             "(is_one(one()), is_zero(zero()), normalize(a, one()) = a for an abstract user semiring) and the "
             "log/probability homomorphism are loop-free harnesses over full-domain symbolic inputs, so each "
             "discharged VC is a proof for all values (floats as extended reals). ad_complement's fold is proved "
             "with a loop invariant. The symbolic (string) semiring is only a bounded stand-in (base alphabet, and its closure "
             "under the semiring's own operations); a third stand-in compares the probability and log-probability objects "
             "method by method on a grid (whatever class implements the method).",
        design_ref="DESIGN.md section 2, C12",
        technique="contract-based deductive verification: own VC generator (ast -> symbolic execution -> z3/cvc5), "
                  "counter-models replayed natively",
    ),
}

TECH = ("contract-based deductive verification: own VC generator (ast -> symbolic execution -> z3/cvc5), "
        "counter-models and bounded native search replayed on the real code")

CLAIMS["C34"] = dict(
    category="proof",
    text="UHeap (push, pop, pop_with_key, peek, _swim_up, _sink_down, _swap, __init__), BitVector (__init__, add, "
         "__contains__, &, &=, |, |=) and OrderedSet (__init__, len, in, add, discard, iteration, reversed, pop) are "
         "verified function by function against whole-view contracts: heap order + index table with the abstract "
         "map item->key and the inductive lemma root-is-min; set-of-naturals view of the bit blocks; ghost ring "
         "order of the doubly linked cells. Recursion and loops are unbounded (own contract / invariants). "
         "BitVector.__len__ (population count, loop invariant) and __bool__ are under contract too; BitVector.__iter__ and the "
         "MutableSet mix-ins are not.",
    design_ref="DESIGN.md section 2, C34",
    technique=TECH,
)

CLAIMS["C15"] = dict(
    category="proof",
    text="struct_cmp (the comparator behind compare/3, @<, @=<, @>, @>=, sort/2) is proved equal to a reference "
         "standard order std_cmp written from the property text (Var < Number < String < Atom < Compound; exact "
         "numeric values, float before equal int; names without quotes; arity, name, arguments) for all terms of an "
         "algebraic Term datatype, including the recursion over arguments (loop invariant over lexcmp); the four "
         "@-comparison wrappers and ==/2, \\==/2 (identity = equal in the standard order) are proved against it. compare/3 and sort/2 themselves (mode check, list building, "
         "sorted()/dedupe) are bounded stand-ins: their contracts are evaluated at run time on generated terms.",
    design_ref="DESIGN.md section 2, C15",
    technique=TECH,
)

CLAIMS["C16"] = dict(
    category="proof",
    text="Every lambda of problog.logic._arithmetic_functions is located by its key in the current source and proved "
         "against the value Prolog prescribes on integer and on float arguments (+ - * / // mod rem div ** ^ unary "
         "ops, bit operators, ceiling/floor/truncate/round, float_integer_part/float_fractional_part, sign, "
         "constants), including the Python-specific hazards (complex results, ZeroDivisionError, result type). "
         "Non-lambda bindings, compute_function's error conversion, is/2 on expression trees, arithmetic comparisons, "
         "between/succ/plus/length/functor/arg/=../type tests are bounded stand-ins through the real engine against "
         "an independent reference evaluator.",
    design_ref="DESIGN.md section 2, C16 and Appendix B",
    technique=TECH,
)
CLAIMS["C30"] = dict(
    category="proof",
    text="The functions that turn a probability annotation into a weight (SemiringProbability/LogProbability value, "
         "in_domain, negate, pos_value, neg_value, ad_complement) are proved to raise InvalidValue for every value "
         "more than 1e-6 outside [0,1] and to accept every value inside, and the AD complement is proved to leave the "
         "semiring's domain exactly when the head probabilities sum to more than 1 (any number of heads). The path "
         "from a program to those calls (ConstraintAD.update_weights, extract_weights, evaluators) is a bounded "
         "stand-in over generated programs; one known finding (AD sum unchecked when only some heads are grounded).",
    design_ref="DESIGN.md section 2, C30",
    technique=TECH,
)

CLAIMS["C28"] = dict(
    category="proof",
    text="py2pl followed by pl2py is proved to be the identity on all ints, all strings (including strings made of or "
         "containing quote characters) and all floats that Constant's 15-decimal rounding leaves unchanged, with the "
         "real bodies of both functions and of the Term/Constant constructors abstracted to the Term datatype. Nested "
         "lists/tuples and problog_export are bounded stand-ins (generated nested values; an exported module called "
         "from a program); two known findings (float precision, tuple whose last element is a tuple).",
    design_ref="DESIGN.md section 2, C28",
    technique=TECH,
)

BOUNDED_NOTE = ("Bounded stand-in, never counted as proved: a run-time contract on the top-level function evaluated over a "
                "finite, seeded program family (bounds in the evidence file's rule). Trusted: the program generator and, "
                "where used, the possible-world reference bounded/pw.py (my own code, ~150 lines, exact rationals). "
                "Known findings listed in known_findings.json are reported as KNOWN-FINDING and do not fail the check.")
BOUNDED_TECH = ("run-time contract (pre/post-condition) on the top-level function over a bounded program family; no "
                "deductive contract within reach of the verifier for the tabled engine (stated in DESIGN.md)")
EXPLORE = {
    "C01": "Post-condition of get_evaluatable().create_from(program).evaluate() against an executable possible-world "
           "specification (well-founded model per total choice, exact rationals) on seeded random programs of the "
           "bounded family: probabilities, reported instances, InconsistentEvidenceError at zero evidence weight.",
    "C02": "Same contract on programs with predicate-level cycles through negation, classified by the reference as "
           "must-reject (some world three-valued on a query/evidence atom), must-answer (no negative cycle in the ground "
           "graph) or either.",
    "C03": "Metamorphic contract: the default engine with every batch of sibling evaluation messages permuted (seeded, "
           "via a MessageFIFO subclass returned from an overridden init_message_stack) must agree with the unpermuted run.",
    "C04": "Metamorphic contract: unbuffered depth-first, unbuffered rc-first and the random-order queue of "
           "docs/source/engine.rst must agree with the default engine.",
    "C05": "Metamorphic contract: every available exact back end (only d-DNNF is installed here; SDD/BDD variants raise "
           "InstallError and are skipped, stated) and the log, user-defined, NSP and symbolic semirings must agree.",
    "C06": "Metamorphic contract: each semantics-neutral option, sampled combinations, log space and the evidence "
           "spellings must give the reference answer (incl. propagate_evidence with propagate_weights, keep_all with "
           "propagate_weights, three-head annotated disjunctions summing to 1 with negative evidence).",
    "C07": "Metamorphic contract: seeded permutations of statements, clauses and body literals must give the reference answer "
           "(probabilities and, strictly, the set of reported instances).",
    "C08": "Metamorphic contract: single-query groundings, one shared target grounded query by query in random order and "
           "a reused prepared database must agree; also the queries added one ground_all call at a time to one target with "
           "evidence propagation (one listed finding there).",
}
EXPLORE.update({
    "C09": "Translation validation of every instance: for each ground program of the family and every assignment to its "
           "atoms, the least-model node values before and after cycle breaking agree, the Clark completion has exactly one "
           "model extending the assignment and it carries the node values; constraints, weights and counts are carried over.",
    "C10": "Validation of every compiled circuit: decomposability and smoothness node by node, determinism and model "
           "equivalence with the CNF by exhaustive enumeration (<= 14 variables), labels and weights carried over; the "
           "compiler is the external dsharp binary, so only per-instance validation is possible. Second stand-in at the "
           "interface: ground programs built through LogicDAG (Python numbers and Constants as weights, 0.0/1.0 included, "
           "contradicting TrueConstraints, force_atoms) -> CNF -> d-DNNF, evaluated and compared with the weighted model "
           "count of the CNF by enumeration (covers empty, single-literal and inconsistent circuits).",
    "C25": "Metamorphic contract: the ProbLog text exported by to_prolog (with and without cycle breaking) re-evaluates to the "
           "same probabilities; the DIMACS text has exactly the clauses and counts of the internal CNF. to_prolog has four "
           "listed known failure modes; the DIMACS part holds.",
    "C26": "Metamorphic contract: subquery/2 and subquery/3 called from a deterministic wrapper bind the probability that "
           "top-level (conditional) inference reports; negated goals in both spellings; negative evidence on all instances of "
           "a unary predicate at once; sequences of subqueries in one clause.",
    "C29": "Metamorphic contract: parent.extend() (one extension or a chain of up to three) plus added clauses answers like "
           "preparing the union from scratch, also half-way through the additions (query, add, query again); the parent "
           "database answers as before the extension; the clauses enumerated by iterating the extension evaluate like the union.",
})
EXPLORE.update({
    "C11": "Run-time contract on the real LogicFormula builder: after every call of seeded call sequences (add_atom, add_and, "
           "add_or readonly/mutable, add_disjunct, negate, add_name) under nine builder option sets, every key returned so far "
           "denotes, by truth table over the atoms, the Boolean function an independent symbolic model of the sequence gives. "
           "The planned proof of the compound/negation core was not built.",
    "C13": "Run-time contract on DefaultEngine.query / findall/3 for seeded deterministic programs against an independent SLD "
           "interpreter (answer order and duplicates) and a bottom-up least-model evaluator (recursive programs, answer sets); "
           "anonymous variables inside negation and findall, an earlier findall over the same facts, negative integer constants; "
           "four listed known deviations of the answer order, decided on the clauses the goal can reach. Second run-time contract, on the real ClauseIndex.find of "
           "the prepared database: exactly the non-clashing clauses, in program order, index unchanged (the contract of "
           "DESIGN.md A.3, evaluated on seeded fact lists and argument patterns; its planned proof was not built).",
    "C14": "Run-time contract on =/2, \\=/2 and clause-head matching for all pairs of a core term set plus seeded random terms "
           "against a reference Robinson unifier with occurs check (answers compared up to variable renaming), plus flat k/3, k/4 "
           "terms with repeated variables and pairs whose only obstacle is the occurs check (rejection sampling). Deductive "
           "part: _builtin_eq/_builtin_neq are complementary, over an assumed contract of unify_value.",
    "C18": "Run-time contract, exhaustive over all pairs and triples of a fixed universe of terms built with the public "
           "constructors and the parser: reflexivity, symmetry, transitivity, equal => same hash, ground equal <=> unifiable; "
           "four listed known findings (string-based Constant equality, quoted atoms, \\+ vs not under unification). Second "
           "stand-in: equality and hash are independent of the history of a term object (caches filled through containers "
           "and accessors in random order on one of two separately built copies). The planned proof for Term-vs-Term was "
           "not built.",
})
EXPLORE.update({
    "C21": "Run-time contract on dtproblog(search=exhaustive|local) and on the map task for seeded decision-theoretic "
           "programs against brute-force expected utility from possible-world enumeration: reported score = expected "
           "utility of the returned strategy; exhaustive: no strategy is better; local: no single flip improves; map: arg "
           "max of the documented objective over the query facts (plus four fixed programs that query heads of an annotated "
           "disjunction; one listed finding for partially queried disjunctions). Four defects found this way were repaired "
           "(fix: commits).",
})
EXPLORE.update({
    "C33": "Run-time contract on cut/1 and cut/2 of library(cut) through the real pipeline for seeded indexed rule sets "
           "(indices 1..15, shuffled file order, probabilistic applicability conditions, bound and free call patterns, compound "
           "head arguments with a variable inside, cut/2 with a free and with a given index): in "
           "every world the answers are those of the matching applicable rule with the numerically smallest index. The "
           "library is Prolog text; the comparator behind its sort/2 is proved under C15. One known finding.",
})
EXPLORE.update({
    "C32": "Run-time contract on select_weighted/4,5 and select_uniform/4 of library(lists) through the real pipeline for "
           "seeded lists of length 1-6 (equal elements included) and positive weights: exactly one element, probability "
           "weight/total, the rest in order, the same identifier makes the same choice, different identifiers are "
           "independent. The library is Prolog text, so there is no Python body to put under a deductive contract.",
})
EXPLORE.update({
    "C17": "Run-time contracts on the parser entry point and on print -> parse: (a) for seeded mutations of the repository's "
           "test programs, snippet concatenations and random strings, iterating PrologString(text) returns or raises a "
           "ProbLogError subclass within 10 s, never another exception; (b) for seeded terms and clauses built with the public "
           "constructors over the full operator table (nested operators, \\+/not, lists, strings, quoted atoms, probabilities, "
           "annotated disjunctions), PrologString(str(t) + '.') yields exactly one clause == t; (c) for seeded clause texts with "
           "explicit parentheses around every operator application (the only way to reach the infix printer), parse -> print "
           "-> parse and Term.from_string give back the parsed clause, probabilities included. Defects found this way "
           "were repaired (fix: commits). Deductive part: 38 tokenizer functions under contract (progress, token text, "
           "functor flag).",
})
EXPLORE.update({
    "C27": "Run-time contract on get_evaluatable().create_from(PrologString(text)).evaluate(): it returns or raises a "
           "ProbLogError subclass within 20 s, never another exception, for (a) every registered builtin (I/O, consult, module "
           "and state builtins excluded) called with seeded argument shapes in three program contexts, (b) family programs plus "
           "one of 40 kinds of user error, (c) token-level mutations of family programs. Twenty-one defects found this way were "
           "repaired (fix: commits).",
})
EXPLORE.update({
    "C19": "Run-time contract on findall/3 and all/3 over probabilistic goals through the real pipeline against exhaustive "
           "possible-world enumeration (exact rationals): every reported result list has the total probability of the worlds "
           "in which the ordered list of solutions (order of the facts in the program, template duplicates included) is that "
           "list; all/3 has no answer in worlds without solutions. Goals include shared subgoals with several proofs and an "
           "earlier findall over the same facts. Known findings: order of the elements under negation (the same class as "
           "C13's) and answers with several proofs in one world.",
})
EXPLORE.update({
    "C20": "Run-time contract on mpe_maxsat and mpe_semiring, called the way the mpe task calls them, against exhaustive "
           "enumeration of the worlds that satisfy the evidence (exact rationals): the returned literals describe an assignment "
           "that satisfies the evidence, is most probable, and has the reported probability (relative 1e-3); zero-probability "
           "evidence is reported as unsatisfiable. The MaxSAT mode holds (one defect repaired); the hidden --use-semiring mode "
           "has five listed known findings.",
})
EXPLORE.update({
    "C23": "Run-time contract on the k-best evaluator (default options and two coarser convergence thresholds) and on the "
           "explain task's KBestFormula evaluation for seeded evidence-free programs against exhaustive possible-world "
           "enumeration: a returned value equals the exact probability, a returned interval contains it and is tight on "
           "completion, the probabilities of the proofs listed per query sum to its exact probability.",
})
EXPLORE.update({
    "C31": "Run-time contract on formula_to_bn, called the way the bn task calls it, for seeded evidence-free acyclic programs: "
           "the factors of the returned network, multiplied out by an independent exact evaluator, give every exported query "
           "variable the probability ProbLog reports. The export is checked strictly on programs without negation, annotated "
           "disjunctions and aliased nodes; the bn task has six listed known findings (it crashes or mis-exports on the other "
           "classes, and on deterministic queries).",
})
EXPLORE.update({
    "C24": "Two-state run-time contract on LFIProblem.step, iterated 12 times on the real object with the command line's "
           "defaults, for seeded learning problems (t(_) facts, one t(_) annotated disjunction, rules; 30 sampled examples, "
           "complete or partial): the returned log-likelihood never decreases, every parameter stays in [0,1], the "
           "parameters of the AD sum to at most 1, and on complete data the first step returns the relative frequencies. "
           "One known finding.",
})
FUNCTION_LEVEL = ("C11", "C13", "C14", "C18", "C17")
FN_BOUNDED_TECH = ("run-time contract (pre/post-condition against an independent reference) on the real functions over a "
                   "bounded input family; the deductive contracts planned for these functions were not built, so nothing "
                   "here is counted as proved")
FN_BOUNDED_NOTE = ("Bounded stand-in, never counted as proved: bounds and the non-triviality rule are in the evidence file's "
                   "rule. Trusted: the input generators and the reference models in /verif/bounded (symbolic truth-table model, "
                   "Robinson unifier, SLD interpreter; my own code). Known findings listed in known_findings.json are reported "
                   "as KNOWN-FINDING and do not fail the check.")
for _pid, _text in EXPLORE.items():
    if _pid in FUNCTION_LEVEL:
        CLAIMS[_pid] = dict(category="exploration", text=_text + " Bounded stand-in only: labelled bounded, not proved.",
                            design_ref="DESIGN.md section 0a (what was built) and section 2, %s (plan)" % _pid,
                            technique=FN_BOUNDED_TECH, note=FN_BOUNDED_NOTE)
        continue
    CLAIMS[_pid] = dict(category="exploration", text=_text + " Bounded stand-in only: labelled bounded, not proved.",
                        design_ref="DESIGN.md section 2, pipeline properties", technique=BOUNDED_TECH, note=BOUNDED_NOTE)

NA = {
    "C22": "convergence of sample frequencies is a statistical limit, not a pre/post-condition of any call; a "
           "Hoeffding test would be statistical testing, a different technique family",
}

checks = []
na = []
for p in props:
    pid = p["id"]
    if pid in CLAIMS:
        c = CLAIMS[pid]
        checks.append(dict(
            property_id=pid,
            quick_cmd="./check %s --tier quick" % pid,
            thorough_cmd="./check %s --tier thorough" % pid,
            evidence_file="evidence/%s.json" % pid,
            replay_cmd_template="./check %s --replay {path}" % pid,
            engine="pyvc",
            level_claimed=dict(category=c["category"], text=c["text"], design_ref=c["design_ref"]),
            level_note=c.get("note", PROOF_NOTE),
            technique=c["technique"],
        ))
    else:
        na.append(dict(property_id=pid, reason=NA.get(pid, "not decided: the contracts / bounded stand-in planned for it in "
                                                         "DESIGN.md section 2 were not built in the time available (see "
                                                         "DESIGN.md section 0a); no check is registered, nothing is claimed")))

m = dict(
    version=1,
    setup_cmd="python3-vt -c \"import z3, cvc5; print('solvers ok')\"",
    hooks=dict(guard="ML_KULEUVEN_PROBLOG_VERIF",
               enable="no source hooks: contracts are side-car files under /verif/contracts, the repository is only read",
               baseline_off_cmd="cd /repo && /venv/bin/python -m pytest -ra -q -p no:cacheprovider --timeout=900 "
                                "--continue-on-collection-errors",
               source_commits=[], add_only=True),
    engines=[dict(name="pyvc", path="pyvc", serves_properties=sorted(CLAIMS),
                  kind_free_text="verification-condition generator for a Python subset: re-reads /repo with ast on "
                                 "every run, symbolic execution path by path, modular calls by contract, loop "
                                 "invariants, obligations discharged by z3 (cvc5 for z3's unknowns), counter-models "
                                 "concretised and replayed on the real code")],
    checks=checks,
    not_applicable=na,
    notes="Exit codes of ./check: 0 held, 1 VIOLATION, 2 undecided (unknown/timeout/outside-subset/stale contract; "
          "never reported as a violation), 3 checker error.",
)
json.dump(m, open(os.path.join(HERE, "MANIFEST.json"), "w"), indent=1)
print("MANIFEST.json: %d checks, %d not applicable" % (len(checks), len(na)))
