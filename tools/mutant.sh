#!/bin/sh
# tools/mutant.sh <property> <file-relative-to-repo> <python-regex-old> <new>  : run ./check on a scratch copy of
# /repo with one textual substitution applied (first match only).  The scratch copy is removed afterwards.
set -e
PID="$1"; FILE="$2"; OLD="$3"; NEW="$4"
TMP=$(mktemp -d /tmp/pyvc_mut.XXXXXX)
trap 'rm -rf "$TMP"' EXIT
mkdir -p "$TMP/repo"
rsync -a --exclude .git --exclude '*.pyc' --exclude __pycache__ /repo/problog "$TMP/repo/"
python3 - "$TMP/repo/$FILE" "$OLD" "$NEW" <<'EOF'
import re, sys
p, old, new = sys.argv[1:4]
s = open(p).read()
s2, n = re.subn(old, new.replace("\\n", "\n"), s, count=1)
if n != 1:
    sys.exit("pattern not found: %s" % old)
open(p, "w").write(s2)
EOF
cd "$(dirname "$0")/.."
PYVC_REPO="$TMP/repo" PYVC_EVIDENCE_DIR="$TMP/evidence" PYVC_REPLAY_DIR="$TMP/replays" ./check "$PID" 2>&1 | grep -v "^$" | tail -${TAIL:-6} | cut -c1-260
