#!/bin/sh
# tools/saveseeds.sh <seed-root> : run seedtest on every seed under <seed-root>/<n>/ and store the confirmed ones
# under /verif/seeded/<property>-<n>/ with the detection record appended to meta.json.
ROOT="$1"
for d in "$ROOT"/[0-9]*; do
  [ -f "$d/patch.diff" ] || continue
  OUT=$(SHOW=3 /verif/tools/seedtest.sh "$d" 2>&1)
  echo "$OUT" | head -1
  PID=$(python3 -c "import json;print(json.load(open('$d/meta.json'))['property'])")
  N=$(basename "$d")
  DEST=/verif/seeded/$PID-$N
  mkdir -p "$DEST"
  cp "$d/patch.diff" "$d/demo.py" "$DEST/"
  printf '%s\n' "$OUT" > /tmp/seedtest_out.txt
  python3 - "$d/meta.json" "$DEST/meta.json" <<'PY'
import json, sys
m = json.load(open(sys.argv[1]))
out = open('/tmp/seedtest_out.txt').read()
first = out.splitlines()[0] if out else ''
m['confirmed'] = 'demo_clean=0 demo_patched=1' in first
m['check_run'] = 'tools/seedtest.sh (git -C /repo apply patch.diff; ./check ' + m['property'] + '; git -C /repo checkout -- .)'
m['check_result'] = first
m['check_output'] = out.splitlines()[1:4]
json.dump(m, open(sys.argv[2], 'w'), indent=1)
PY
done
