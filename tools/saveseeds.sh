#!/bin/sh
# tools/saveseeds.sh <seed-root> : run seedtest on every seed under <seed-root>/<n>/ and store it under
# /verif/seeded/<property>-<n>/ (patch.diff, demo.py, meta.json with the detection record appended).
ROOT="$1"
SUF="$2"   # optional wave suffix (e.g. b): destination <property>-<suffix><n>
for d in "$ROOT"/[0-9]*; do
  [ -f "$d/patch.diff" ] || continue
  OUT=$(SHOW=3 /verif/tools/seedtest.sh "$d" 2>&1)
  echo "$OUT" | head -1
  PID=$(python3 -c "import json;print(json.load(open('$d/meta.json'))['property'])")
  N=$(basename "$d")
  DEST=/verif/seeded/$PID-$SUF$N
  mkdir -p "$DEST"
  cp "$d/patch.diff" "$d/demo.py" "$DEST/"
  TMPF=$(mktemp)
  printf '%s\n' "$OUT" > "$TMPF"
  python3 - "$d/meta.json" "$DEST/meta.json" "$TMPF" <<'PY'
import json, sys
m = json.load(open(sys.argv[1]))
out = open(sys.argv[3]).read()
first = out.splitlines()[0] if out else ''
m['confirmed'] = 'demo_clean=0 demo_patched=1' in first
m['check_run'] = 'tools/seedtest.sh (patch applied to a scratch copy of /repo; ./check ' + m['property'] + ' --tier quick with PYVC_REPO pointing at it)'
m['check_result'] = first.replace(sys.argv[1].rsplit('/', 1)[0], '<seed>')
m['detected'] = 'check_exit=1' in first
m['check_output'] = [l[:300] for l in out.splitlines()[1:4]]
json.dump(m, open(sys.argv[2], 'w'), indent=1)
PY
  rm -f "$TMPF"
done
