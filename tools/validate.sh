#!/bin/sh
# tools/validate.sh : validate MANIFEST.json and every evidence file against the given schemas
cd "$(dirname "$0")/.." || exit 3
python3-vt - <<'PY'
import json, glob, sys, jsonschema
bad = 0
m = json.load(open("MANIFEST.json"))
try:
    jsonschema.validate(m, json.load(open("/root/.vp/MANIFEST.schema.json")))
    print("MANIFEST ok: %d checks, %d n/a" % (len(m["checks"]), len(m["not_applicable"])))
except Exception as e:
    print("MANIFEST INVALID:", str(e)[:500]); bad = 1
es = json.load(open("/root/.vp/EVIDENCE.schema.json"))
for c in m["checks"]:
    f = c["evidence_file"]
    try:
        jsonschema.validate(json.load(open(f)), es)
    except Exception as e:
        print("EVIDENCE INVALID/MISSING", f, str(e)[:300]); bad = 1
sys.exit(bad)
PY
