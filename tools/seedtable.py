#!/usr/bin/env python3
"""tools/seedtable.py: write seeded/README.md - one row per seeded change (property, what was changed, what it needs
to manifest, whether the property's quick check reports it), from the meta.json files written by tools/saveseeds.sh."""
import glob
import json
import os

HERE = os.path.dirname(os.path.dirname(os.path.abspath(__file__)))
rows = []
for d in sorted(glob.glob(os.path.join(HERE, "seeded", "*"))):
    mp = os.path.join(d, "meta.json")
    if not os.path.exists(mp):
        continue
    m = json.load(open(mp))
    first = (m.get("check_output") or [""])[0]
    ob = first.split(" ")[1] if first.startswith("FAILED-OBLIGATION") else ""
    rows.append((os.path.basename(d), m.get("property"), m.get("summary", "").replace("|", "/").replace("\n", " ")[:220],
                 m.get("needs", "").replace("|", "/").replace("\n", " ")[:200],
                 "yes" if m.get("detected", "check_exit=1" in m.get("check_result", "")) else "NO",
                 ob, m.get("note", "")))
det = sum(1 for r in rows if r[4] == "yes")
out = ["# Seeded property-breaking changes", "",
       "Produced by independent sub-agents that were given only the property text and a scratch worktree; each was "
       "confirmed here (applies to the clean tree, its demo passes without and fails with the change, the repository's "
       "tests still pass).  `detected` is the verdict of the property's **quick** check (`tools/seedtest.sh`: patch applied to "
       "a scratch copy of /repo, `./check <id> --tier quick`).", "",
       "%d changes, %d reported by the quick check of their property." % (len(rows), det), "",
       "| seed | property | change | needs | detected | first failed obligation | note |", "|---|---|---|---|---|---|---|"]
for r in rows:
    out.append("| %s | %s | %s | %s | %s | %s | %s |" % r)
open(os.path.join(HERE, "seeded", "README.md"), "w").write("\n".join(out) + "\n")
print("%d seeds, %d detected" % (len(rows), det))
