"""tools/runb.py <bounded module> <property> [seeds...]: run one bounded stand-in directly and print its violations
grouped by name (development helper; the registered checks go through ./check)."""
import importlib
import os
import sys


def main():
    mod, pid = sys.argv[1], sys.argv[2]
    seeds = [int(x) for x in sys.argv[3:]] or [1]
    tier = os.environ.get("VERIF_TIER", "quick")
    m = importlib.import_module("bounded." + mod)
    for seed in seeds:
        r = m.run(pid, tier, seed)
        for c in r:
            print("seed", seed, c["name"], c["evaluations"], c["distinct_nontrivial"])
            names = {}
            for v in c["violations"]:
                names.setdefault(v["name"], []).append(v)
            for k, vs in names.items():
                print(" ", k, len(vs))
                print(vs[0]["text"][:1200])


if __name__ == "__main__":
    main()
