"""Run-time contracts on the top-level inference functions over the bounded program family.
Shared by the pipeline stand-ins (C01-C08, ...).  Never counted as proved."""
import multiprocessing as mp
import os
import warnings

warnings.simplefilter("ignore")

TOL = 1e-9


def evaluate_src(src, engine_kwargs=None, ground_kwargs=None, eval_kwargs=None, evaluatable=None):
    """-> ('ok', {atom string: probability}) | ('exc', 'problog:Class' | 'internal:Class')"""
    from problog.program import PrologString
    from problog import get_evaluatable
    from problog.engine import DefaultEngine
    from problog.formula import LogicFormula
    from bounded.util import classify_exception
    try:
        model = PrologString(src)
        if engine_kwargs or ground_kwargs:
            eng = DefaultEngine(**(engine_kwargs or {}))
            db = eng.prepare(model)
            gp = eng.ground_all(db, **(ground_kwargs or {}))
            kc = get_evaluatable(evaluatable).create_from(gp)
        else:
            kc = get_evaluatable(evaluatable).create_from(model)
        r = kc.evaluate(**(eval_kwargs or {}))
        return "ok", dict((str(k), float(v)) for k, v in r.items())
    except Exception as e:      # noqa
        return "exc", classify_exception(e)


def _job(args):
    fn, payload = args
    import importlib
    mod, name = fn.rsplit(".", 1)
    return getattr(importlib.import_module(mod), name)(payload)


def pmap(fn, payloads, jobs=None):
    """Map a module-level function (given by dotted name) over payloads in worker processes."""
    jobs = jobs or min(16, os.cpu_count() or 4)
    if len(payloads) < 8 or jobs == 1:
        return [_job((fn, p)) for p in payloads]
    with mp.get_context("spawn").Pool(jobs) as pool:
        return pool.map(_job, [(fn, p) for p in payloads], chunksize=max(1, len(payloads) // (jobs * 4)))


def same_result(a, b, tol=1e-7):
    """Two evaluate_src outcomes agree (missing query instances count as probability 0)."""
    if a[0] != b[0]:
        return False
    if a[0] == "exc":
        return a[1] == b[1]
    keys = set(a[1]) | set(b[1])
    return all(abs(a[1].get(k, 0.0) - b[1].get(k, 0.0)) <= tol for k in keys)
