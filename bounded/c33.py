"""C33 bounded stand-in: run-time contract on cut/1 and cut/2 of library(cut) (Prolog text on top of all/3, clause/2
and sort/2 — there is no Python function to put under a deductive contract, only the builtins it calls) through the
real pipeline, against a closed-form reference: in every world the answers are those of the matching, applicable
rule with the numerically smallest index, regardless of file order.  Never counted as proved."""
import itertools
import random
from fractions import Fraction

from bounded.pipeline import evaluate_src, pmap
from bounded.util import Collector

CONSTS = ["a", "b", "c"]
TOL = 1e-7


def gen(rng):
    nf = rng.randint(1, 3)
    facts = [("f%d" % i, Fraction(rng.randint(1, 9), 10)) for i in range(nf)]
    n = rng.randint(2, 7)
    if rng.random() < 0.7:
        idx = rng.sample(range(1, 16), n)                 # distinct indices 1..15
    else:
        idx = [rng.randint(1, 15) for _ in range(n)]      # repeated indices: several clauses of one rule
    if rng.random() < 0.5 and not any(i >= 10 for i in idx):
        idx[0] = rng.randint(10, 15)                      # make sure multi-digit indices meet single-digit ones
    rules = []
    for i in idx:
        args = (rng.choice(CONSTS), rng.choice(CONSTS))
        r = rng.random()
        cond = None
        if r < 0.35:
            cond = (True, rng.choice(facts)[0])
        elif r < 0.5:
            cond = (False, rng.choice(facts)[0])
        rules.append((i, args, cond))
    # in a third of the rule sets the first argument is a compound term, in some heads with a variable inside (w(_)):
    # the head is neither ground nor a variable; the calls then give that argument as a ground term
    compound = rng.random() < 0.33
    if compound:
        rules = [(i, (rng.choice(["w(_)", "w(_)", "w(a)", "w(b)", "v(a)"]), a[1]), c) for i, a, c in rules]
    rng.shuffle(rules)                                    # file order is independent of the index order
    calls = []
    for _ in range(rng.randint(1, 3)):
        first = rng.choice(["w(a)", "w(b)", "v(a)", "w(c)"]) if compound else rng.choice(CONSTS + ["_", "_"])
        mode = rng.random() < 0.4
        if mode and rng.random() < 0.3:
            mode = rng.choice([i for i, _, _ in rules] + [rng.randint(1, 15)]) + 100     # cut/2 with the index given
        calls.append((first, rng.choice(CONSTS + ["_", "_"]), mode))
    return facts, rules, calls


def render(facts, rules, calls):
    out = [":- use_module(library(cut))."]
    for f, p in facts:
        out.append("%s::%s." % (float(p), f))
    for i, (x, y), cond in rules:
        body = "" if cond is None else " :- %s%s" % ("" if cond[0] else "\\+", cond[1])
        out.append("r(%d, %s, %s)%s." % (i, x, y, body))
    for k, (x, y, with_index) in enumerate(calls):
        cx = "X" if x == "_" else x
        cy = "Y" if y == "_" else y
        if with_index is not True and with_index is not False:
            out.append("q%d(%s, %s, I) :- I = %d, cut(r(%s, %s), I)." % (k, cx, cy, with_index - 100, cx, cy))
            out.append("query(q%d(_, _, _))." % k if (x == "_" and y == "_") else
                       "query(q%d(%s, %s, _))." % (k, "_" if x == "_" else x, "_" if y == "_" else y))
        elif with_index:
            out.append("q%d(X, Y, I) :- X = %s, Y = %s, cut(r(X, Y), I)." % (k, cx, cy) if False else
                       "q%d(%s, %s, I) :- cut(r(%s, %s), I)." % (k, cx, cy, cx, cy))
            out.append("query(q%d(_, _, _))." % k if (x == "_" and y == "_") else
                       "query(q%d(%s, %s, _))." % (k, "_" if x == "_" else x, "_" if y == "_" else y))
        else:
            out.append("q%d(%s, %s) :- cut(r(%s, %s))." % (k, cx, cy, cx, cy))
            out.append("query(q%d(%s, %s))." % (k, "_" if x == "_" else x, "_" if y == "_" else y))
    return "\n".join(out) + "\n"


def reference(facts, rules, calls):
    """{query instance string: probability}"""
    exp = {}
    names = [f for f, _ in facts]
    for bits in itertools.product([0, 1], repeat=len(facts)):
        w = Fraction(1)
        val = {}
        for (f, p), b in zip(facts, bits):
            w *= p if b else 1 - p
            val[f] = bool(b)
        for k, (x, y, with_index) in enumerate(calls):
            match = [(i, (x if a[0] == "w(_)" else a[0], a[1])) for i, a, cond in rules
                     if (x == "_" or a[0] == x or (a[0] == "w(_)" and x.startswith("w("))) and (y == "_" or a[1] == y)
                     and (cond is None or val[cond[1]] == cond[0])]
            if not match:
                continue
            lo = min(i for i, _ in match)
            if with_index is not True and with_index is not False and with_index - 100 != lo:
                continue        # the given index is not the first applicable rule: no answer
            for a in sorted(set(a for i, a in match if i == lo)):
                key = "q%d(%s,%s%s)" % (k, a[0], a[1], ",%d" % lo if with_index else "")
                exp[key] = exp.get(key, Fraction(0)) + w
    return exp


def subsumed_value(calls, exp, key, value):
    """True when `key` = q<k>(x,y[,i]) belongs to a call whose pattern is a strict instance of an earlier call j with the
    same arity (with/without index) and `value` is what the reference gives for q<j> on the same instance."""
    name, rest = key.split("(", 1)
    k = int(name[1:])
    args = rest[:-1].split(",")
    xk, yk, wk = calls[k]
    for j, (xj, yj, wj) in enumerate(calls):
        if j >= k or wj != wk or (xj, yj) == (xk, yk):
            continue
        if (xj == "_" or xj == xk) and (yj == "_" or yj == yk):
            other = float(exp.get("q%d(%s)" % (j, ",".join(args)), 0))
            if abs(other - value) <= TOL:
                return True
    return False


def check_one(seed):
    rng = random.Random(seed)
    facts, rules, calls = gen(rng)
    src = render(facts, rules, calls)
    exp = reference(facts, rules, calls)
    st, res = evaluate_src(src)
    out = dict(src=src, violations=[], nontrivial=len(set(i for i, _, _ in rules)) > 1,
               multidigit=any(i >= 10 for i, _, _ in rules) and any(i < 10 for i, _, _ in rules))
    if st == "exc":
        out["violations"].append(("exception", "raised %s" % res))
        return out
    for k, v in res.items():
        if any(c.isupper() or c == "_" for c in k.split("(", 1)[-1]):
            if abs(v) > TOL:
                out["violations"].append(("non-ground-answer", "%s = %s" % (k, v)))
            continue
        e = float(exp.get(k, 0))
        if abs(v - e) > TOL and subsumed_value(calls, exp, k, v):
            # known finding: the tabled answers of a more general call of the same cut goal are reused
            out["violations"].append(("wrong-rule:subsumed-call-tabled", "P(%s) = %.8f, expected %.8f; the value is that "
                                      "of the same instance of a more general call grounded earlier" % (k, v, e)))
        elif abs(v - e) > TOL:
            out["violations"].append(("wrong-rule", "P(%s) = %.8f, the rule with the smallest applicable index gives %.8f"
                                      % (k, v, e)))
    for k, e in exp.items():
        if k not in res and float(e) > TOL:
            out["violations"].append(("missing-answer", "%s not reported, expected %.8f" % (k, float(e))))
    return out


def run(pid, tier, seed):
    n = 6000 if tier == "thorough" else 1200
    col = Collector("C33:cut-vs-lowest-index",
                    "%d seeded indexed rule sets r(I, X, Y) (2-7 clauses, indices from 1..15 distinct or repeated, in "
                    "shuffled file order, arguments over {a,b,c}, optional condition f or \\+f on 1-3 probabilistic facts), "
                    "1-3 calls cut(r(..)) / cut(r(..), I) with free or bound arguments, evaluated by the real pipeline and "
                    "compared with: per world, the answers of the matching applicable rule with the smallest index "
                    "(numeric order); non-trivial = at least two different indices" % n)
    res = pmap("bounded.c33.check_one", [seed * 104729 + i for i in range(n)])
    for r in res:
        col.case(r["src"], nontrivial=r["nontrivial"])
        for name, text in r["violations"]:
            col.violation("bounded:c33:%s" % name, "%s on program:\n%s" % (text, r["src"]), dict(program=r["src"]))
    return [col.result()]
