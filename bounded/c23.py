"""C23 bounded stand-in: run-time contract on the k-best evaluator and on the explain task's computation, for
evidence-free programs of the bounded family, against possible-world enumeration (exact rationals):
  * get_evaluatable('kbest').create_from(program).evaluate(**options) returns per query a single value equal to the
    exact probability or an interval [lower, upper] that contains it (1e-6), for the default options and for coarser
    convergence thresholds (the anytime bounds must be sound at every stopping point);
  * KBestFormula.create_from(db, label_all=True).evaluate(explain=lines), as the explain task calls it: the
    probabilities printed with the proofs of each query sum to its exact probability, and the returned values equal it.
Never counted as proved."""
import re

from bounded import progs, pw
from bounded.pipeline import pmap
from bounded.util import Collector, classify_exception

TOL = 1e-6


def check_one(prog):
    from problog.program import PrologString
    from problog import get_evaluatable
    from problog.engine import DefaultEngine
    from problog.kbest import KBestFormula
    prog = [s for s in prog if s[0] != "evidence"]
    sem = pw.semantics(prog)
    if sem["status"] != "ok" or sem["undefined"] or sem["negcycle"] or sem["probs"] is None:
        return dict(skip=True)
    src = progs.render(prog)
    from bounded.pipeline import evaluate_src
    if evaluate_src(src)[0] != "ok":
        return dict(skip=True)      # programs exact inference itself rejects (C01/C02's subject) are out of scope here
    exp = dict((progs.atom_str(q), float(p)) for q, p in sem["probs"].items())
    out = dict(src=src, violations=[], nontrivial=any(0 < v < 1 for v in exp.values()))
    for label, kw in (("default", {}), ("convergence-0.2", dict(convergence=0.2)), ("convergence-0.05", dict(convergence=0.05))):
        try:
            r = get_evaluatable("kbest").create_from(PrologString(src)).evaluate(**kw)
        except Exception as e:      # noqa
            out["violations"].append(("kbest:exception:" + classify_exception(e).split(":", 1)[1],
                                      "kbest (%s) raised %s" % (label, classify_exception(e))))
            continue
        for k, v in r.items():
            k = str(k)
            if any(c.isupper() for c in k.split("(", 1)[-1]):
                continue
            e = exp.get(k, 0.0)
            if isinstance(v, tuple):
                lo, hi = float(v[0]), float(v[1])
                if lo > hi + TOL:
                    out["violations"].append(("kbest:interval", "kbest (%s) returned the empty interval %s for %s" % (label, v, k)))
                elif not (lo - TOL <= e <= hi + TOL):
                    out["violations"].append(("kbest:bounds-unsound", "kbest (%s): P(%s) = %.9f is outside the returned interval "
                                              "[%.9f, %.9f]" % (label, k, e, lo, hi)))
                elif label == "default" and hi - lo > 1e-4:
                    out["violations"].append(("kbest:not-tight", "kbest ran to completion but returned [%.9f, %.9f] for %s"
                                              % (lo, hi, k)))
            elif abs(float(v) - e) > TOL:
                out["violations"].append(("kbest:value", "kbest (%s): returned %.9f for %s, exact probability %.9f"
                                          % (label, float(v), k, e)))
        for k, e in exp.items():
            if e > TOL and k not in set(str(x) for x in r):
                out["violations"].append(("kbest:missing", "kbest (%s) does not report %s (probability %.9f)" % (label, k, e)))
    # explain
    try:
        db = DefaultEngine().prepare(PrologString(src))
        lines = []
        res = KBestFormula.create_from(db, label_all=True).evaluate(explain=lines)
    except Exception as e:      # noqa
        out["violations"].append(("explain:exception:" + classify_exception(e).split(":", 1)[1],
                                  "explain raised %s" % classify_exception(e)))
        return out
    sums = {}
    nproofs = {}
    for line in lines:
        m = re.match(r"^(.*?)(?: :- .*)?\.\s+% P=([0-9.eE+-]+)\s*$", line)
        if m:
            h = m.group(1).replace(" ", "")
            sums[h] = sums.get(h, 0.0) + float(m.group(2))
            nproofs[h] = nproofs.get(h, 0) + 1
    for k, v in res.items():
        k = str(k)
        if any(c.isupper() for c in k.split("(", 1)[-1]):
            continue
        e = exp.get(k, 0.0)
        val = float(v[0]) if isinstance(v, tuple) else float(v)
        if abs(val - e) > TOL:
            out["violations"].append(("explain:value", "explain reports %.9f for %s, exact probability %.9f" % (val, k, e)))
    # The proofs come in blocks separated by empty lines, one block per query, in which the head is the name of the
    # query's *node* (two queries on one node are both listed under the same name): the block sums, as a multiset, must be
    # the probabilities of the reported ground queries with non-zero probability.  A deterministically true query is
    # listed as `q :- true.` without a probability (counted as 1).
    blocks, cur, cnt = [], None, 0
    for line in lines + [""]:
        if not line.strip():
            if cur is not None:
                blocks.append((cur, cnt))
            cur, cnt = None, 0
            continue
        m = re.match(r"^.*\.\s+% P=([0-9.eE+-]+)\s*$", line)
        if re.search(r":- true\.\s*$", line) and not m:
            blocks.append((1.0, 1))      # a deterministically true query: one line of its own, no separator
            continue
        if m and float(m.group(1)) == 1.0:
            # a proof of probability 1 completes its query: the enumeration stops there and writes no separator line
            if cur is not None:
                blocks.append((cur, cnt))
            blocks.append((1.0, 1))
            cur, cnt = None, 0
            continue
        if re.search(r":- fail\.\s*$", line):
            cur = (cur or 0.0)           # a query without proof is listed as `q :- fail.`
        else:
            cur = (cur or 0.0) + (float(m.group(1)) if m else 1.0)
        cnt += 1
    want = sorted(exp.get(str(k), 0.0) for k in res if not any(c.isupper() for c in str(k).split("(", 1)[-1])
                  and exp.get(str(k), 0.0) > TOL)
    got = sorted(b for b, c in blocks if b > TOL)
    slack = 1e-6 + 6e-7 * max([c for b, c in blocks] + [1])
    if len(want) != len(got) or any(abs(a - b) > slack for a, b in zip(want, got)):
        out["violations"].append(("explain:proofs-sum", "the proof blocks have probabilities summing to %s, the queries have the "
                                  "exact probabilities %s; proofs:\n%s" % (got, want, "\n".join(lines))))
    return out


def run(pid, tier, seed):
    n = 2500 if tier == "thorough" else 200
    ps = progs.programs(seed * 49979687 + 23, n, max_choices=8, evidence=False, disj=False)
    # certain and impossible "probabilistic" facts (1.0::t, 0.0::t), also under negation: every third program
    import random as _random
    from fractions import Fraction as _Fraction
    _rng = _random.Random(seed * 31 + 23)
    for _i, _p in enumerate(ps):
        if _i % 3 == 0:
            _idx = [j for j, st in enumerate(_p) if st[0] == "fact"]
            # (preferably a fact that occurs under negation in some rule)
            _negated = set(a for st in _p if st[0] in ("rule", "ad") for pos, a in st[2] if not pos)
            _idx = [j for j in _idx if _p[j][2] in _negated] or _idx
            if _idx:
                _j = _rng.choice(_idx)
                _p[_j] = ("fact", _Fraction(_rng.choice([0, 1, 1])), _p[_j][2])
    col = Collector("C23:kbest-and-explain-vs-possible-worlds",
                    "%d seeded evidence-free programs of the bounded family (stratified, incl. positive cycles, ADs, noisy-or); "
                    "kbest with the default options and with convergence 0.2 / 0.05, and the explain task's KBestFormula "
                    "evaluation with proofs, against exhaustive possible-world enumeration (exact rationals, 1e-6); non-trivial = "
                    "some query probability strictly between 0 and 1" % n)
    for r in pmap("bounded.c23.check_one", ps):
        if r.get("skip"):
            continue
        col.case(r["src"], nontrivial=r["nontrivial"])
        for name, text in r["violations"]:
            col.violation("bounded:c23:" + name, "%s on program:\n%s" % (text, r["src"]), dict(program=r["src"]))
    return [col.result()]
