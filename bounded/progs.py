"""The bounded program family shared by the pipeline stand-ins (DESIGN.md Appendix C).

A program is a list of statements (tuples):
  ("fact", p, atom)                      p::atom.            (atom may contain variables bound by a domain body)
  ("ad", [(p, atom), ...], body)         p1::h1; p2::h2 :- body.   (body: list of literals, may be empty)
  ("rule", head, body)                   head :- l1, l2.
  ("query", atom) / ("evidence", atom, bool)
atom = (pred, (arg, ...)), arg = constant 'a'/'b' or variable 'X'/'Y'; literal = (positive?, atom).
"""
import itertools
import random
from fractions import Fraction

CONSTS = ["a", "b"]
PROBS = [Fraction(1, 10), Fraction(3, 10), Fraction(1, 2), Fraction(7, 10), Fraction(9, 10)]


def is_var(x):
    return x[0].isupper()


def atom_str(a):
    p, args = a
    return p if not args else "%s(%s)" % (p, ",".join(args))


def lit_str(l):
    return atom_str(l[1]) if l[0] else "\\+" + atom_str(l[1])


def pstr(p):
    return repr(float(p))


def stmt_str(s):
    k = s[0]
    if k == "fact":
        return "%s::%s." % (pstr(s[1]), atom_str(s[2]))
    if k == "ad":
        heads = "; ".join("%s::%s" % (pstr(p), atom_str(a)) for p, a in s[1])
        return heads + ((" :- " + ", ".join(lit_str(l) for l in s[2])) if s[2] else "") + "."
    if k == "rule":
        return atom_str(s[1]) + ((" :- " + ", ".join(lit_str(l) for l in s[2])) if s[2] else "") + "."
    if k == "query":
        return "query(%s)." % atom_str(s[1])
    if k == "evidence":
        return "evidence(%s,%s)." % (atom_str(s[1]), "true" if s[2] else "false")
    if k == "pragma":
        return "%% %s" % s[1]
    raise ValueError(k)


DISJ = ("pragma", "body-disjunctions")


def render(prog):
    """Program text.  With the statement DISJ in the program, all the clauses of one derived predicate head (same head
    term, non-empty bodies) are written as ONE clause whose body is the disjunction of their bodies,
    `h :- (b1, b2 ; c1 ; d1, d2).`, at the place of the first of them: the same program under the distribution
    semantics (so every reference and every metamorphic relation applies unchanged), but it exercises the engine's
    evaluation of explicit disjunctions."""
    if DISJ not in prog:
        return "\n".join(stmt_str(s) for s in prog) + "\n"
    groups = {}
    for s in prog:
        if s[0] == "rule" and s[2]:
            groups.setdefault(s[1], []).append(s[2])
    out, done = [], set()
    for s in prog:
        if s[0] == "rule" and s[2] and len(groups[s[1]]) > 1:
            if s[1] in done:
                continue
            done.add(s[1])
            alts = [", ".join(lit_str(l) for l in b) for b in groups[s[1]]]
            out.append("%s :- (%s)." % (atom_str(s[1]), " ; ".join(alts)))
        elif s[0] in ("rule", "ad") and len(s[2]) >= 2 and all(pos for pos, _ in s[2][:2]):
            # (same semantics, other shape of the ground program: the first two literals as a nested conjunction)
            text = stmt_str((s[0], s[1], [])).rstrip(".")
            rest = ", ".join(lit_str(l) for l in s[2][2:])
            out.append("%s :- (%s, %s)%s." % (text, lit_str(s[2][0]), lit_str(s[2][1]), (", " + rest) if rest else ""))
        else:
            out.append(stmt_str(s))
    return "\n".join(out) + "\n"


def vars_of(atom):
    return [x for x in atom[1] if is_var(x)]


class Gen(object):
    """Random programs of the C01 fragment.  Probabilistic predicates f/0, g/1; derived p/0, q/1, r/0, s/1;
    domain d/1 (deterministic facts d(a). d(b).).  Every variable of a negated literal or of a head is bound by
    an earlier positive literal (range restriction), so grounding over {a, b} is finite and safe."""

    def __init__(self, rng, negation=True, recursion=True, ads=True, evidence=True, neg_cycles=False,
                 max_choices=10, max_body=2):
        self.rng, self.negation, self.recursion, self.ads = rng, negation, recursion, ads
        self.evidence, self.neg_cycles, self.max_choices = evidence, neg_cycles, max_choices
        self.max_body = max_body

    def pick_prob(self):
        return self.rng.choice(PROBS)

    def program(self):
        r = self.rng
        prog = [("rule", ("d", ("a",)), []), ("rule", ("d", ("b",)), [])]
        prob_atoms = []        # (pred, arity)
        # probabilistic facts
        nfacts = r.randint(1, 3)
        for i in range(nfacts):
            k = r.random()
            if k < 0.5:
                a = ("f%d" % i, ())
                prog.append(("fact", self.pick_prob(), a))
                prob_atoms.append(("f%d" % i, 0))
            elif k < 0.8:
                c = r.choice(CONSTS)
                prog.append(("fact", self.pick_prob(), ("g%d" % i, (c,))))
                k2 = r.random()
                if k2 < 0.25:
                    prog.append(prog[-1])           # the very same statement twice: two independent choices (noisy-or)
                elif k2 < 0.6:
                    prog.append(("fact", self.pick_prob(), ("g%d" % i, (r.choice(CONSTS),))))   # may repeat: noisy-or
                prob_atoms.append(("g%d" % i, 1))
            else:
                # non-ground probabilistic fact over the domain
                prog.append(("ad", [(self.pick_prob(), ("g%d" % i, ("X",)))], [(True, ("d", ("X",)))]))
                prob_atoms.append(("g%d" % i, 1))
        if self.ads and r.random() < 0.5:
            n = r.randint(2, 3)
            ps = [Fraction(r.randint(1, 3), 10) for _ in range(n)]
            if r.random() < 0.3:
                ps = [Fraction(1, n)] * n         # sum exactly 1
            body = []
            if r.random() < 0.5 and prob_atoms:
                body = [(True, self.body_atom(r.choice(prob_atoms), ["a", "b"]))]
            prog.append(("ad", [(p, ("h%d" % j, ())) for j, p in enumerate(ps)], body))
            prob_atoms += [("h%d" % j, 0) for j in range(n)]
        if self.ads and r.random() < 0.2 and prob_atoms:
            # two probabilistic rules for one head (the head has several proofs, each with a choice of its own), or one
            # non-ground probabilistic rule with several groundings per head
            if r.random() < 0.6:
                for _ in range(2):
                    body = [(True, self.body_atom(r.choice(prob_atoms), ["a", "b"])) for _ in range(r.randint(1, 2))]
                    prog.append(("ad", [(self.pick_prob(), ("pr", ()))], body))
                prob_atoms.append(("pr", 0))
            else:
                prog.append(("ad", [(self.pick_prob(), ("pr", ())), (Fraction(1, 10), ("ps", ()))],
                             [(True, ("d", ("X",))), (True, self.body_atom(r.choice(prob_atoms), ["X"]))]))
                prob_atoms += [("pr", 0), ("ps", 0)]
        if self.ads and r.random() < 0.25:
            # a non-ground annotated disjunction: one independent choice per element of the domain
            n = r.randint(2, 3)
            ps = [Fraction(r.randint(1, 3), 10) for _ in range(n)]
            prog.append(("ad", [(p, ("k%d" % j, ("X",))) for j, p in enumerate(ps)], [(True, ("d", ("X",)))]))
            prob_atoms += [("k%d" % j, 1) for j in range(n)]
        # rules
        derived = [("p", 0), ("q", 1), ("r", 0), ("s", 1)]
        defined = []
        nrules = r.randint(1, 4)
        order = {"p": 0, "r": 1, "q": 2, "s": 3}
        for _ in range(nrules):
            hp, har = r.choice(derived)
            head = (hp, ("X",) if har else ())
            body = []
            bound = set()
            if har:
                if r.random() < 0.7:
                    body.append((True, ("d", ("X",))))
                    bound.add("X")
            nl = r.randint(1, 2) if self.max_body <= 2 else r.randint(1, self.max_body)
            for _ in range(nl):
                cands = list(prob_atoms)
                if self.neg_cycles:
                    cands += derived
                elif self.recursion:
                    # stratified family: dependencies never go to an "earlier" predicate (positive ones may
                    # stay in the same predicate: recursion), negative ones go strictly later
                    cands += [dd for dd in derived if order[dd[0]] >= order[hp]]
                else:
                    cands += [dd for dd in derived if order[dd[0]] > order[hp]]
                bp, bar = r.choice(cands)
                neg = self.negation and r.random() < 0.3
                if neg and not self.neg_cycles and (bp, bar) in derived and order[bp] <= order[hp]:
                    neg = False        # keep predicate-level stratification: negate only "later" predicates
                if bar:
                    if "X" in bound or (har and not neg and r.random() < 0.8):
                        arg = "X" if (har and ("X" in bound or not neg)) else r.choice(CONSTS)
                    else:
                        arg = r.choice(CONSTS)
                    if arg == "X" and neg and "X" not in bound:
                        arg = r.choice(CONSTS)
                    if arg == "X" and not neg:
                        bound.add("X")
                    a = (bp, (arg,))
                else:
                    a = (bp, ())
                body.append((not neg, a))
            if har and "X" not in bound:
                body.insert(0, (True, ("d", ("X",))))
            prog.append(("rule", head, body))
            defined.append((hp, har))
        # every derived predicate that is referenced gets at least one clause (an undefined predicate is an
        # UnknownClause error in ProbLog, which is the subject of C27, not of this family)
        used = set()
        for st in prog:
            if st[0] in ("rule", "ad"):
                for _, a in st[2]:
                    used.add((a[0], len(a[1])))
        for dp, dar in derived:
            if (dp, dar) in used and (dp, dar) not in defined:
                base = self.body_atom(r.choice(prob_atoms), CONSTS)
                if dar:
                    prog.append(("rule", (dp, ("X",)), [(True, ("d", ("X",))), (True, base)]))
                else:
                    prog.append(("rule", (dp, ()), [(True, base)]))
                defined.append((dp, dar))
        # queries / evidence
        qcands = sorted(set(defined)) or [derived[0]]
        nq = r.randint(1, 2)
        for _ in range(nq):
            qp, qar = r.choice(qcands + prob_atoms[:1])
            if qar:
                arg = r.choice(CONSTS + ["X"])
                prog.append(("query", (qp, ("_" if arg == "X" else arg,))))
            else:
                prog.append(("query", (qp, ())))
        if self.evidence:
            done = set()
            for _ in range(r.choice([0, 0, 0, 1, 1, 1, 2, 3])):
                ep, ear = r.choice(qcands + prob_atoms)
                ea = (ep, (r.choice(CONSTS),) if ear else ())
                if ea not in done:          # (two statements on one atom could contradict each other)
                    done.add(ea)
                    prog.append(("evidence", ea, r.random() < 0.6))
            if r.random() < 0.2:
                # positive evidence on a propositional atom with two proofs and on the single body literal of one of
                # them (evidence propagation then meets a disjunction that must be true and already has a true child)
                a1, a2 = self.body_atom(r.choice(prob_atoms), CONSTS), self.body_atom(r.choice(prob_atoms), CONSTS)
                if a1 != a2 and a1 not in done and ("dd", ()) not in done:
                    prog.append(("rule", ("dd", ()), [(True, a1)]))
                    prog.append(("rule", ("dd", ()), [(True, a2)]))
                    prog.append(("evidence", ("dd", ()), True))
                    prog.append(("evidence", a1, True))
                    prog.append(("query", a2))
        return prog

    def body_atom(self, pa, consts):
        p, ar = pa
        return (p, (self.rng.choice(consts),) if ar else ())


def count_choices(prog):
    n = 0
    for s in prog:
        if s[0] == "fact":
            n += 1
        elif s[0] == "ad":
            vs = set()
            for _, a in s[1]:
                vs |= set(vars_of(a))
            for l in s[2]:
                vs |= set(vars_of(l[1]))
            n += (len(CONSTS) ** len([v for v in vs if v != "_"])) * (1 if len(s[1]) == 1 else 2)
    return n


def graph_program(rng, evidence=True, negation=True):
    """Second profile: a small (partly certain) graph with edges e/2 over {a, b}, path/2 by left- or
    right-recursion, rules with repeated variables (loop :- e(X,X)) next to rules with distinct ones
    (any :- e(X,Y)), certain facts, several queries on members of the same cycle, evidence also on
    deterministically true/false atoms.  Stratified (negation only on e/2 and on certain facts)."""
    prog = []
    edges = [(x, y) for x in CONSTS for y in CONSTS]
    rng.shuffle(edges)
    nprob = 0
    for (x, y) in edges[:rng.randint(2, 4)]:
        if rng.random() < 0.3:
            prog.append(("rule", ("e", (x, y)), []))                     # certain edge
        else:
            prog.append(("fact", rng.choice(PROBS), ("e", (x, y))))
            nprob += 1
    if nprob == 0:
        prog.append(("fact", rng.choice(PROBS), ("e", ("a", "b"))))
    prog.append(("fact", rng.choice(PROBS), ("f", ())))
    if rng.random() < 0.5:
        prog.append(("rule", ("t", ()), []))                              # deterministically true atom
    rules = []
    if rng.random() < 0.5:
        rules.append(("rule", ("path", ("X", "Y")), [(True, ("e", ("X", "Y")))]))
        rules.append(("rule", ("path", ("X", "Y")), [(True, ("e", ("X", "Z"))), (True, ("path", ("Z", "Y")))]))
    else:
        rules.append(("rule", ("path", ("X", "Y")), [(True, ("path", ("X", "Z"))), (True, ("e", ("Z", "Y")))]))
        rules.append(("rule", ("path", ("X", "Y")), [(True, ("e", ("X", "Y")))]))
    if rng.random() < 0.35:
        # a second left-recursive clause of path/2 over another edge relation (the goal becomes a cycle parent twice,
        # possibly after it already has answers)
        prog.append(("fact", rng.choice(PROBS), ("g2", (rng.choice(CONSTS), rng.choice(CONSTS)))))
        rules.append(("rule", ("path", ("X", "Y")), [(True, ("path", ("X", "Z"))), (True, ("g2", ("Z", "Y")))]))
    rules.append(("rule", ("loop", ()), [(True, ("e", ("X", "X")))]))
    rules.append(("rule", ("any", ()), [(True, ("e", ("X", "Y")))]))
    # mutually recursive 0-ary predicates on one cycle, each with an exit
    rules.append(("rule", ("m1", ()), [(True, ("m2", ()))]))
    rules.append(("rule", ("m1", ()), [(True, ("f", ()))]))
    rules.append(("rule", ("m2", ()), [(True, ("m1", ())), (True, ("e", (rng.choice(CONSTS), rng.choice(CONSTS))))]))
    rules.append(("rule", ("m2", ()), [(True, ("path", ("a", "b")))]))
    if negation and rng.random() < 0.6:
        rules.append(("rule", ("n", ()), [(False, ("e", (rng.choice(CONSTS), rng.choice(CONSTS))))]))
        rules.append(("rule", ("n2", ()), [(True, ("f", ())), (False, ("n", ()))]))
    if any(s[0] == "rule" and s[1] == ("t", ()) for s in prog):
        rules.append(("rule", ("w", ()), [(True, ("f", ())), (True, ("t", ()))]))
    rng.shuffle(rules)
    prog += rules
    defined = sorted(set((s[1][0], len(s[1][1])) for s in prog if s[0] == "rule" and s[1][0] != "e"))
    qs = rng.sample(defined, min(len(defined), rng.randint(1, 3)))
    for qp, qar in qs:
        if qar == 2:
            prog.append(("query", (qp, (rng.choice(CONSTS + ["_"]), rng.choice(CONSTS)))))
        else:
            prog.append(("query", (qp, ())))
    if evidence:
        done = set()
        for _ in range(rng.choice([0, 0, 1, 1, 2])):
            ep, ear = rng.choice(defined + [("e", 2)])
            ea = (ep, tuple(rng.choice(CONSTS) for _ in range(ear)))
            if ea not in done:
                done.add(ea)
                prog.append(("evidence", ea, rng.random() < 0.6))
    return prog


def cycle_program(rng, evidence=True, k=None):
    """Third profile: three or four mutually recursive nullary predicates with interlocking positive cycles
    (1-3 clauses each, bodies of 1-2 literals over the predicates and 3-4 probabilistic facts), several of
    them queried; optionally two evidence statements."""
    prog = []
    nf = rng.randint(3, 4)
    facts = [("f%d" % i, ()) for i in range(nf)]
    for a in facts:
        prog.append(("fact", rng.choice(PROBS), a))
    k = k or rng.randint(3, 4)
    preds = [("c%d" % i, ()) for i in range(k)]
    rules = []
    for i, p in enumerate(preds):
        for _ in range(rng.randint(1, 3)):
            body = []
            for _ in range(rng.randint(1, 2)):
                body.append((True, rng.choice(preds) if rng.random() < 0.6 else rng.choice(facts)))
            rules.append(("rule", p, body))
        if rng.random() < 0.7:
            rules.append(("rule", p, [(True, rng.choice(facts))]))      # an exit from the cycle
    rng.shuffle(rules)
    prog += rules
    for q in rng.sample(preds, rng.randint(2, min(3, k))):
        prog.append(("query", q))
    if evidence:
        for _ in range(rng.choice([0, 0, 1, 2])):
            prog.append(("evidence", rng.choice(preds + facts), rng.random() < 0.5))
    return prog


def negcycle_program(rng, evidence=True):
    """Profile for C02: three to five nullary predicates with 1-3 clauses each over each other and 2-3 probabilistic
    facts, body literals on predicates negated with probability 0.3 - cycles through negation next to (and mixed
    with) positive cycles, reached directly, below an open positive cycle, or only in some worlds."""
    prog = []
    nf = rng.randint(2, 3)
    facts = [("f%d" % i, ()) for i in range(nf)]
    for a in facts:
        prog.append(("fact", rng.choice(PROBS), a))
    k = rng.randint(3, 5)
    preds = [("n%d" % i, ()) for i in range(k)]
    rules = []
    for p in preds:
        for _ in range(rng.randint(1, 3)):
            body = []
            for _ in range(rng.randint(1, 2)):
                if rng.random() < 0.6:
                    body.append((not (rng.random() < 0.3), rng.choice(preds)))
                else:
                    body.append((not (rng.random() < 0.15), rng.choice(facts)))
            rules.append(("rule", p, body))
    rng.shuffle(rules)
    prog += rules
    for q in rng.sample(preds, rng.randint(1, 2)):
        prog.append(("query", q))
    if evidence and rng.random() < 0.25:
        prog.append(("evidence", rng.choice(preds + facts), rng.random() < 0.5))
    return prog


def rare_evidence_program(rng):
    """Profile for the semiring / option checks: evidence of very small but clearly non-zero probability (1e-10 .. 1e-6,
    far above the 1e-12 tolerance under which the probability semiring treats a weight as zero) and queries whose joint
    weight with the evidence is smaller still, so that the answer depends on products below that tolerance."""
    tiny = [Fraction(1, 10 ** rng.randint(3, 5)) for _ in range(3)]
    prog = [("fact", tiny[i], ("t%d" % i, ())) for i in range(3)]
    prog.append(("fact", rng.choice(PROBS), ("f0", ())))
    prog.append(("rule", ("e", ()), [(True, ("t0", ())), (True, ("t1", ()))]))
    if rng.random() < 0.5:
        prog.append(("rule", ("e", ()), [(True, ("t0", ())), (True, ("t2", ())), (True, ("f0", ()))]))
    prog.append(("rule", ("q", ()), [(True, ("t2", ())), (True, ("e", ()))] if rng.random() < 0.5 else [(True, ("t2", ()))]))
    prog.append(("rule", ("r", ()), [(True, ("f0", ())), (rng.random() < 0.5, ("t2", ()))]))
    prog.append(("query", ("q", ())))
    prog.append(("query", ("r", ())))
    prog.append(("evidence", ("e", ()), True))
    return prog


def compound_program(rng):
    """Profile for the metamorphic checks only (the possible-world reference has no function symbols): a predicate
    p/1 over compound terms f(1), f(2), g(1), ... with ground and *non-ground* heads (p(f(_)), p(_)), nullary
    wrappers that call it with different instantiation patterns (p(_), p(f(_)), p(f(1))), ground queries on
    instances and wrappers.  Answers of the non-ground calls are partly non-ground terms."""
    prog = []
    facts = [("a", ()), ("b", ()), ("c", ())]
    for f in facts:
        prog.append(("fact", rng.choice(PROBS), f))
    heads = ["f(1)", "f(2)", "g(1)", "g(2)", "f(_)", "g(_)", "_", "f(1)"]
    for _ in range(rng.randint(2, 5)):
        body = [(rng.random() < 0.85, rng.choice(facts)) for _ in range(rng.randint(1, 2))]
        prog.append(("rule", ("p", (rng.choice(heads),)), body))
    wrappers = [("q", "_"), ("r", "f(_)"), ("s", "f(1)"), ("t", "g(_)")]
    rng.shuffle(wrappers)
    used = wrappers[:rng.randint(1, 3)]
    for w, pat in used:
        prog.append(("rule", (w, ()), [(True, ("p", (pat,)))]))
    qs = [(w, ()) for w, _ in used] + [("p", (rng.choice(["f(1)", "f(2)", "g(1)", "g(2)", "h(1)"]),)) for _ in range(2)]
    rng.shuffle(qs)
    if rng.random() < 0.5:
        # a predicate of arity 3 whose heads mix constants and variables at every position (clause indexing on several
        # arguments), called with all arguments ground and with some of them open
        for _ in range(rng.randint(2, 4)):
            body = [(rng.random() < 0.85, rng.choice(facts)) for _ in range(rng.randint(1, 2))]
            prog.append(("rule", ("w", tuple(rng.choice(["a", "b", "_", "_"]) for _ in range(3))), body))
        wq = [("w", tuple(rng.choice(["a", "b"]) for _ in range(3))) for _ in range(2)]
        prog.append(("rule", ("v", ()), [(True, ("w", tuple(rng.choice(["a", "b", "_"]) for _ in range(3))))]))
        qs = wq + [("v", ())] + qs
    seen = []
    for q in qs[:rng.randint(2, 4)]:
        if q not in seen:
            seen.append(q)
            prog.append(("query", q))
    if rng.random() < 0.3:
        prog.append(("evidence", rng.choice(facts), rng.random() < 0.5))
    return prog


def unfounded_program(rng):
    """Profile for the order checks only: recursion *without* a base case (an unfounded positive loop: false in every
    world, but the engine only learns that when cycles are broken) next to a conjunction g(Y), \\+g(Y) that is false by
    simplification; non-ground queries, so that which instances are *reported* (with probability 0) depends on what
    grounding finds."""
    prog = [("fact", rng.choice(PROBS), ("g", (c,))) for c in rng.sample(["1", "2", "3"], rng.randint(1, 2))]
    rules = [("rule", ("r", ("3", "Y")), [(True, ("s", ("Y",)))]),
             ("rule", ("s", ("X",)), [(True, ("r", ("X", "Y"))), (True, ("s", ("Y",)))]),
             ("rule", ("r", ("X", "X")), [(True, ("g", ("X",)))]),
             ("rule", ("t", ("X",)), [(True, ("s", ("X",))), (True, ("r", ("X", "_")))]),
             ("rule", ("t", ("X",)), [(True, ("r", ("X", "Y"))), (False, ("g", ("Y",)))])]
    keep = [r_ for r_ in rules if rng.random() < 0.85]
    if not any(r_[1][0] == "t" for r_ in keep):
        keep.append(rules[-1])
    for pred in ("r", "s"):
        if not any(r_[1][0] == pred for r_ in keep):
            keep.append([r_ for r_ in rules if r_[1][0] == pred][0])
    rng.shuffle(keep)
    prog += keep
    qs = [("t", ("X",)), ("s", ("X",)), ("r", ("X", "Y"))]
    rng.shuffle(qs)
    for q in qs[:rng.randint(1, 3)]:
        prog.append(("query", q))
    return prog


def programs(seed, n, extreme=False, compound=False, disj=True, unfounded=False, more_cycles=False, **kw):
    """disj=True: a quarter of the programs are written with explicit body disjunctions (see render).  extreme=True: in a third of the programs one probabilistic fact gets probability 0.0 or 1.0 (valid
    annotations at the border of the range; weight propagation and log space treat them specially)."""
    rng = random.Random(seed)
    g = Gen(rng, **kw)
    out = []
    tries = 0
    while len(out) < n and tries < n * 20:
        tries += 1
        r = rng.random()
        if extreme and r > 0.92:
            p = rare_evidence_program(rng)
        elif compound and r > 0.85:
            p = compound_program(rng)
        elif unfounded and r > 0.8:
            p = unfounded_program(rng)
        elif g.neg_cycles and r < 0.7:
            p = negcycle_program(rng, evidence=g.evidence)
        elif not g.neg_cycles and g.recursion and r < 0.25:
            p = graph_program(rng, evidence=g.evidence, negation=g.negation)
        elif not g.neg_cycles and g.recursion and r < (0.6 if more_cycles else 0.4):
            p = cycle_program(rng, evidence=g.evidence, k=rng.randint(3, 5) if more_cycles else None)
        else:
            p = g.program()
        if count_choices(p) <= g.max_choices:
            if extreme and rng.random() < 0.34:
                idx = [i for i, st in enumerate(p) if st[0] == "fact"]
                if idx:
                    i = rng.choice(idx)
                    p[i] = ("fact", Fraction(rng.choice([0, 1])), p[i][2])
            if extreme and rng.random() < 0.4:
                # an annotated disjunction whose three heads sum to exactly 1, with negative evidence on one of them
                hs = [("z0", ()), ("z1", ()), ("z2", ())]
                ws = rng.choice([(5, 3, 2), (2, 2, 6), (1, 8, 1), (4, 4, 2)])
                p.insert(2, ("ad", [(Fraction(w, 10), h) for w, h in zip(ws, hs)], []))
                order = list(hs)
                rng.shuffle(order)
                p.insert(3, ("rule", ("zz", ()), [(True, order[0]), (True, order[0])]))
                p.insert(4, ("rule", ("zz", ()), [(True, order[1])]))
                p.append(("query", ("zz", ())))
                p.append(("query", order[1]))
                p.append(("query", order[0]))
                p.append(("evidence", order[2], False))
            if extreme and rng.random() < 0.5:
                # an annotated disjunction at the border: all heads 0.0, or one head 1.0 and the others 0.0
                idx = [i for i, st in enumerate(p) if st[0] == "ad" and len(st[1]) >= 2 and st[1][0][1][0] != "z0"]
                if idx:
                    i = rng.choice(idx)
                    one = rng.randrange(len(p[i][1])) if rng.random() < 0.4 else len(p[i][1])
                    p[i] = ("ad", [(Fraction(1 if j == one else 0), h) for j, (_, h) in enumerate(p[i][1])], p[i][2])
            if disj and random.Random(len(out) * 7 + seed).random() < 0.25:
                # (own generator: the stream of programs is the same with and without this option)
                p.insert(0, DISJ)
            out.append(p)
    return out
