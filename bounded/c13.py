"""C13 bounded stand-in: deterministic programs against an independent SLD interpreter (answer order of
findall/3, duplicates included) and a bottom-up least-model evaluator (recursive programs, answer sets)."""
import itertools
import random
import re

from bounded.c14 import mgu, apply, show, canon, _listnorm
from bounded.pipeline import pmap
from bounded.util import Collector, classify_exception

CONSTS = ["a", "b", "c", "1", "2", "-1"]


# ---------------------------------------------------------------- reference SLD
class Depth(Exception):
    pass


def rename(t, n):
    if t[0] == "v":
        return ("v", "%s_%d" % (t[1], n))
    if t[0] == "f":
        return ("f", t[1], [rename(a, n) for a in t[2]])
    return t


def solve(goals, s, prog, counter, depth):
    """Generator of substitutions: SLD resolution, clauses top to bottom, goals left to right."""
    if depth > 60:
        raise Depth()
    if not goals:
        yield s
        return
    g, rest = goals[0], goals[1:]
    if g[0] == "not":
        found = False
        for _ in solve([g[1]], s, prog, counter, depth + 1):
            found = True
            break
        if not found:
            for r in solve(rest, s, prog, counter, depth + 1):
                yield r
        return
    for head, body in prog:
        counter[0] += 1
        n = counter[0]
        h = rename(head, n)
        s2 = mgu(g, h, s)
        if s2 is None:
            continue
        b = [(("not", rename(x[1], n)) if x[0] == "not" else rename(x, n)) for x in body]
        for r in solve(b + rest, s2, prog, counter, depth + 1):
            yield r


def sld_findall(template, goal, prog):
    out = []
    for s in solve([goal], {}, prog, [0], 0):
        out.append(apply(template, s))
        if len(out) > 200:
            raise Depth()
    return out


def least_model(prog, max_iter=50):
    """Bottom-up evaluation for programs whose facts are ground and rules range-restricted (no negation)."""
    facts = set()
    for _ in range(max_iter):
        new = set(facts)
        for head, body in prog:
            def rec(i, s):
                if i == len(body):
                    new.add(show(apply(head, s)))
                    return
                for f in list(facts_terms):
                    s2 = mgu(body[i], f, s)
                    if s2 is not None:
                        rec(i + 1, s2)
            facts_terms = [parse_ground(f) for f in facts]
            rec(0, {})
        if new == facts:
            return facts
        facts = new
    return facts


def parse_ground(text):
    # terms here are p(c,...) with constant arguments only
    name, args = text[:-1].split("(", 1)
    return ("f", name, [("c", a) for a in args.split(",")])


# ---------------------------------------------------------------- program generator
def T(name, *args):
    return ("f", name, list(args))


def V(n):
    return ("v", n)


def C(c):
    return ("c", c)


def gen_program(rng, recursive):
    prog = []
    # facts for p/2 (mix of ground and variable-headed clauses: exercises the clause index)
    for _ in range(rng.randint(3, 6)):
        a = C(rng.choice(CONSTS)) if (recursive or rng.random() < 0.75) else V("X")
        b = C(rng.choice(CONSTS)) if (recursive or rng.random() < 0.8) else V("Y")
        if not recursive and rng.random() < 0.15:
            a = T("f", C(rng.choice(CONSTS)))
        prog.append((T("p", a, b), []))
    for _ in range(rng.randint(1, 3)):
        prog.append((T("e", C(rng.choice(CONSTS))), []))
    if recursive:
        if rng.random() < 0.5:
            prog.append((T("t", V("X"), V("Y")), [T("p", V("X"), V("Y"))]))
            prog.append((T("t", V("X"), V("Y")), [T("p", V("X"), V("Z")), T("t", V("Z"), V("Y"))]))
        else:
            prog.append((T("t", V("X"), V("Y")), [T("t", V("X"), V("Z")), T("p", V("Z"), V("Y"))]))
            prog.append((T("t", V("X"), V("Y")), [T("p", V("X"), V("Y"))]))
        goal = T("t", V("A"), V("B"))
    else:
        k = rng.random()
        if k < 0.2:
            # the same predicate called with a repeated variable and, afterwards, with distinct ones (and the other
            # way round): the two call patterns must not share their tabled answers
            r2 = rng.random()
            if r2 < 0.3:
                prog.append((T("q", V("X"), V("Z")), [T("p", V("X"), V("X")), T("p", V("Y"), V("Z"))]))
            elif r2 < 0.6:
                prog.append((T("q", V("X"), V("Z")), [T("p", V("Y"), V("Z")), T("p", V("X"), V("X"))]))
            else:
                # ... and with a constant where the other call has its (renumbered) variable: p(X,X) is tabled as
                # p(-1,-1), and -1 is also an integer
                c = C(rng.choice(["-1", "-1", "-2", "a", "1"]))
                lits = [T("p", V("X"), V("X")), T("p", V("Z"), c)]
                rng.shuffle(lits)
                prog.append((T("q", V("X"), V("Z")), lits))
                prog.append((T("p", C(rng.choice(["1", "a", "-1"])), C("-1")), []))
            goal = T("q", V("A"), V("B"))
        elif k < 0.4:
            prog.append((T("q", V("X"), V("Z")), [T("p", V("X"), V("Y")), T("p", V("Y"), V("Z"))]))
            goal = T("q", V("A"), V("B"))
        elif k < 0.58:
            prog.append((T("q", V("X"), V("Y")), [T("p", V("X"), V("Y")), ("not", T("e", V("Y")))]))
            prog.append((T("q", V("X"), V("X")), [T("e", V("X"))]))
            goal = T("q", V("A"), V("B"))
        elif k < 0.8:
            c = C(rng.choice(CONSTS))
            goal = rng.choice([T("p", c, V("B")), T("p", V("A"), c), T("p", V("A"), V("B"))])
        elif k < 0.9:
            # several anonymous variables inside one negation: each `_` is a variable of its own
            for _ in range(rng.randint(1, 2)):
                a, b = rng.sample(CONSTS, 2) if rng.random() < 0.8 else [rng.choice(CONSTS)] * 2
                prog.append((T("w", C(a), C(b)), []))
            prog.append((T("q", V("X"), V("Y")), [T("p", V("X"), V("Y")), ("not", T("w", ANON(), ANON()))]))
            prog.append((T("q", V("X"), V("X")), [T("e", V("X")), ("not", T("w", V("X"), ANON()))]))
            goal = T("q", V("A"), V("B"))
        else:
            # several anonymous variables inside one findall goal
            for _ in range(rng.randint(2, 5)):
                prog.append((T("s", *[C(rng.choice(CONSTS)) for _ in range(4)]), []))
            goal = T("s", V("A"), V("B"), ANON(), ANON())
    rng.shuffle(prog) if not recursive else None
    return prog, goal


_ANON = [0]


def ANON():
    """A fresh variable that is written `_` in the program text."""
    _ANON[0] += 1
    return V("_G%d" % _ANON[0])


def _anon_text(text):
    return re.sub(r"\b_G\d+(_\d+)?\b", "_", text)


def clause_str(cl):
    head, body = cl
    if not body:
        return show(head) + "."
    return show(head) + " :- " + ", ".join(("\\+" + show(b[1])) if b[0] == "not" else show(b) for b in body) + "."


def check(payload):
    prog, goal, recursive = payload
    from problog.program import PrologString
    from problog.engine import DefaultEngine
    from problog.logic import Term
    src = _anon_text("\n".join(clause_str(c) for c in prog) + "\n")
    template = T("r", V("A"), V("B"))
    # in a third of the cases another findall over the same facts (with another call pattern) runs first in the same query
    first = ""
    pfacts = [h for h, b in prog if not b and h[1] == "p" and h[2][0][0] == "c"]
    if not recursive and len(src) % 3 != 0 and pfacts:
        # (the first argument of the last p/2 fact: the earlier findall meets a later fact first)
        first = "findall(Y, p(%s,Y), _), " % show(pfacts[-1][2][0])
    out = dict(case=src + "?- " + first + _anon_text(show(goal)), violations=[], nontrivial=False)
    wrapper = src + "all(L) :- %sfindall(%s, %s, L).\n" % (first, show(template), _anon_text(show(goal)))
    try:
        e = DefaultEngine()
        db = e.prepare(PrologString(wrapper))
        res = e.query(db, Term("all", None))
        if len(res) != 1:
            out["violations"].append(("findall-answers", "findall has %d answers" % len(res)))
            return out
        # (unbound variables of an answer are raw negative integers: give them names, so that they cannot be
        # confused with negative integer constants in the printed answer)
        class _Names(object):
            def __getitem__(self, k):
                from problog.logic import Var
                return Var("Q%d" % -k) if type(k) == int else (Var("Q0") if k is None else Var(k))
        ans = res[0][0]
        ans = ans.apply(_Names()) if hasattr(ans, "apply") else ans
        got = _listnorm(canon(str(ans), False).replace("[", "LB").replace("]", "RB"))
    except Exception as ex:      # noqa
        out["violations"].append(("exception:" + classify_exception(ex).split(":", 1)[1], classify_exception(ex)))
        return out
    if recursive:
        lm = least_model(prog)
        expected = sorted(x for x in lm if x.startswith("t("))
        got_items = sorted(set(_items(got)))
        exp_items = sorted(set("r(%s" % x[2:] for x in expected))
        out["nontrivial"] = len(exp_items) > 1
        if got_items != exp_items:
            out["violations"].append(("tabled-answer-set", "answers %s, least Herbrand model gives %s" % (got_items, exp_items)))
        return out
    try:
        exp = sld_findall(template, goal, prog)
    except (Depth, RecursionError):
        out["skip"] = True
        return out
    # answers are compared one by one up to renaming of the variables inside each answer
    exp_items = [_listnorm(canon(show(x), False).replace("[", "LB").replace("]", "RB")) for x in exp]
    got_items = [canon(x, False) for x in _items(got)]
    out["nontrivial"] = len(exp_items) > 1
    if sorted(got_items) != sorted(exp_items):
        out["violations"].append(("answers", "findall gives %s, Prolog gives %s" % (got_items, exp_items)))
    elif got_items != exp_items:
        # The three listed known findings.  They are decided on the part of the program the goal can reach (a
        # duplicate clause, a variable-headed fact or a negation elsewhere in the program excuses nothing) and, for the
        # second one, on the answers (some answer is non-ground).
        reach, todo = set(), [goal[1]]
        while todo:
            f = todo.pop()
            if f in reach:
                continue
            reach.add(f)
            for h, b in prog:
                if h[1] == f:
                    todo += [(x[1][1] if x[0] == "not" else x[1]) for x in b]
        rel = [c for c in prog if c[0][1] in reach]
        texts = [clause_str(c) for c in rel]
        if len(set(texts)) < len(texts):
            klass = "findall-order:duplicate-clauses"
        elif any(re.search(r"\bV\d+\b", x) for x in exp_items):
            klass = "findall-order:variable-headed-facts"
        elif any(b[0] == "not" for _, body in rel for b in body):
            klass = "findall-order:negation"
        elif any(len([b for b in body if b[0] != "not"]) != len(set(b[1] for b in body if b[0] != "not")) for _, body in rel):
            # a reachable rule calls the same predicate twice: the same facts take part in several proofs
            klass = "findall-order:self-join"
        else:
            klass = "findall-order"
        out["violations"].append((klass, "findall gives %s, Prolog's SLD order is %s" % (got_items, exp_items)))
    return out


def _items(consform):
    """Split a cons(...) normalised list into its element strings."""
    out = []
    s = consform
    while s.startswith("cons("):
        depth, i = 0, 5
        start = i
        while i < len(s):
            ch = s[i]
            if ch == "(":
                depth += 1
            elif ch == ")":
                depth -= 1
            elif ch == "," and depth == 0:
                break
            i += 1
        out.append(s[start:i])
        s = s[i + 1:-1]
    return out


def run(pid, tier, seed):
    rng = random.Random(seed * 733 + 13)
    n = 10000 if tier == "thorough" else 2500
    payloads = []
    for i in range(n):
        rec = i % 4 == 0
        p, g = gen_program(rng, rec)
        payloads.append((p, g, rec))
    col = Collector("C13:deterministic-programs", "%d seeded pure Prolog programs (facts over %s incl. variable-headed and "
                    "compound-argument clauses, conjunctions, negation as failure; every 4th program left/right-recursive "
                    "transitive closure); findall/3 through the engine vs an independent SLD interpreter (order and "
                    "duplicates) resp. a bottom-up least-model evaluator (answer sets); distinct = programs; non-trivial = "
                    "more than one answer" % (n, CONSTS))
    for r in pmap("bounded.c13.check", payloads):
        if r.get("skip"):
            continue
        col.case(r["case"], nontrivial=r["nontrivial"])
        for name, text in r["violations"]:
            col.violation("bounded:c13:" + name, "%s\nprogram:\n%s" % (text, r["case"]), dict(program=r["case"]))
    return [col.result(), run_index(tier, seed)]


# ---------------------------------------------------------------- function-level contract: ClauseIndex.find
def check_index(payload):
    """Run-time contract on the real ClauseIndex.find of the prepared database (the contract of DESIGN.md A.3):
    for every argument pattern, find() returns exactly the clauses whose ground arguments do not clash with the
    ground arguments of the call, in program order, without duplicates, and leaves the index as it was."""
    facts, patterns = payload
    from problog.program import PrologString
    from problog.engine import DefaultEngine
    from problog.logic import Term, is_ground
    src = "\n".join("p(%s)." % ",".join(f) for f in facts) + "\n"
    out = dict(case=src + "find: " + "; ".join(",".join(p) for p in patterns), violations=[], nontrivial=False)
    try:
        db = DefaultEngine().prepare(PrologString(src))
        arity = len(facts[0])
        define = db.get_node(db.find(Term("p", *([None] * arity))))
        index = define.children
        clause_ids = list(index)
        clause_args = [db.get_node(c).args for c in clause_ids]

        def snapshot():
            return [dict((k, list(v)) for k, v in d.items() if len(v)) for d in index._ClauseIndex__index], list(index)
        before = snapshot()
        for rnd in range(2):        # twice: a find() that pollutes the index shows in the second round
            for pat in patterns:
                call = [None if a[0].isupper() else Term.from_string("w(%s)" % a).args[0] for a in pat]
                expected = [cid for cid, cargs in zip(clause_ids, clause_args)
                            if all(q is None or not is_ground(c) or c == q for q, c in zip(call, cargs))]
                got = list(index.find(call))
                if len(expected) > 1:
                    out["nontrivial"] = True
                if sorted(got) != sorted(expected):
                    out["violations"].append(("clauseindex-find:wrong-clauses", "find(%s) round %d returns clauses %s, the matching "
                                              "clauses are %s" % (",".join(pat), rnd, got, expected)))
                elif got != expected:
                    out["violations"].append(("clauseindex-find:order", "find(%s) round %d returns clauses %s, program order is %s"
                                              % (",".join(pat), rnd, got, expected)))
                if snapshot() != before:
                    out["violations"].append(("clauseindex-find:index-modified", "find(%s) changed the index" % ",".join(pat)))
                    before = snapshot()
    except Exception as ex:      # noqa
        out["violations"].append(("clauseindex-find:exception:" + classify_exception(ex).split(":", 1)[1], classify_exception(ex)))
    return out


def run_index(tier, seed):
    rng = random.Random(seed * 911 + 13)
    n = 2000 if tier == "thorough" else 300
    payloads = []
    for _ in range(n):
        arity = rng.choice([1, 2, 2, 3])
        facts = [tuple(rng.choice(CONSTS + ["f(a)"]) if rng.random() < 0.7 else rng.choice(["X", "Y"]) for _ in range(arity))
                 for _ in range(rng.randint(2, 7))]
        patterns = [tuple(rng.choice(CONSTS + ["f(a)", "zz"]) if rng.random() < 0.6 else "V" for _ in range(arity))
                    for _ in range(rng.randint(2, 5))]
        payloads.append((facts, patterns))
    col = Collector("C13:ClauseIndex.find", "%d seeded fact lists for p/1..3 (2-7 clauses over %s, f(a) and variables) prepared by the "
                    "real engine; 2-5 argument patterns each (constants, an unknown constant, unbound), every pattern looked up "
                    "twice; ClauseIndex.find must return exactly the non-clashing clauses in program order and leave the index "
                    "unchanged; distinct = (facts, patterns); non-trivial = some lookup matches more than one clause"
                    % (n, CONSTS))
    for r in pmap("bounded.c13.check_index", payloads):
        col.case(r["case"], nontrivial=r["nontrivial"])
        for name, text in r["violations"]:
            col.violation("bounded:c13:" + name, "%s\nprogram:\n%s" % (text, r["case"]), dict(program=r["case"]))
    return col.result()
