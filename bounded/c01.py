"""C01 / C02 bounded stand-ins: the top-level inference function against the possible-world reference."""
from bounded import progs, pw
from bounded.pipeline import evaluate_src, pmap
from bounded.util import Collector

TOL = 1e-7


def classify(prog):
    """Syntactic classes of programs used to delimit known findings."""
    cls = set()
    preds_pos = {}
    for s in prog:
        if s[0] == "rule":
            body = s[2]
            pos = set(a for p, a in body if p)
            neg = set(a for p, a in body if not p)
            if pos & neg:
                cls.add("complementary-literals-in-body")
            for p, a in body:
                preds_pos.setdefault(s[1][0], set()).add((p, a[0]))
    # positive recursion at predicate level
    def reach(src):
        seen, todo = set(), [src]
        while todo:
            x = todo.pop()
            for (p, y) in preds_pos.get(x, ()):
                if y not in seen:
                    seen.add(y)
                    todo.append(y)
        return seen
    for h in preds_pos:
        if h in reach(h):
            cls.add("recursive-predicate")
    # a negated literal on a predicate that lies on a (positive or negative) dependency cycle
    for h, deps in preds_pos.items():
        for (p, y) in deps:
            if not p and y in preds_pos and (y in reach(y) or any(z in reach(z) for z in reach(y))):
                # the negated predicate is recursive or depends on a recursive predicate
                cls.add("negated-recursive-predicate")
    # predicate-level negative cycle
    for h, deps in preds_pos.items():
        for (p, y) in deps:
            if not p and (y == h or h in reach(y)):
                cls.add("predicate-negative-cycle")
    return cls


def check_one(prog):
    """The post-condition is evaluated for create_from(program) with its defaults and, when the program has evidence,
    also with propagate_evidence=True (the default of the problog command line)."""
    sem = pw.semantics(prog)
    if sem["status"] != "ok":
        return dict(skip=True)
    src = progs.render(prog)
    out = _judge(prog, sem, src, *evaluate_src(src))
    if any(s[0] == "evidence" for s in prog):
        out2 = _judge(prog, sem, src, *evaluate_src(src, ground_kwargs=dict(propagate_evidence=True)), pe=True)
        seen = set(out["violations"])
        for name, text in out2["violations"]:
            if (name, text) not in seen:
                out["violations"].append((name, "[propagate_evidence=True] " + text))
        out["nontrivial"] = out["nontrivial"] or out2["nontrivial"]
    return out


def _judge(prog, sem, src, st, res, pe=False):
    out = dict(src=src, outcome=(st, res if st == "exc" else sorted(res.items())), classes=sorted(classify(prog)),
               nontrivial=False, violations=[])
    must_reject = sem["undefined"]
    must_answer = not sem["negcycle"]
    expected_incons = sem["probs"] is None and not must_reject

    def viol(name, text):
        out["violations"].append((name, text))
    if st == "exc" and res.startswith("internal:"):
        viol("internal-exception", "raised %s" % res)
        return out
    if pe and must_reject and not sem["undefined_consistent"]:
        # the three-valued worlds are all excluded by the evidence, and with evidence propagation the engine prunes
        # them while grounding: "stratified only after goal-directed pruning" - either outcome is acceptable
        return out
    if must_reject:
        out["nontrivial"] = True
        if st == "ok":
            # known finding, decided on the ground program: an atom of the cycle through negation also lies on a
            # positive cycle (the engine loses such a cycle); any other answered negative cycle is reported
            viol("negative-cycle-answered" + (":through-positive-cycle" if sem["negcycle_mixed"] else ""),
                 "a world has a three-valued well-founded model on a query/evidence atom but inference answered %s"
                 % sorted(res.items()))
        elif "GroundingError" not in res and "NegativeCycle" not in res and "problog:" not in res:
            viol("wrong-error", res)
        return out
    if st == "exc":
        if expected_incons and "InconsistentEvidence" in res:
            out["nontrivial"] = True
            return out
        if not must_answer and ("NegativeCycle" in res or "GroundingError" in res):
            return out          # either is acceptable
        if "NegativeCycle" in res:
            viol("spurious-negative-cycle", "no cycle through negation in the ground program, raised %s" % res)
        else:
            viol("unexpected-error", "raised %s" % res)
        return out
    if sem["negcycle"]:
        return out      # not predicate-stratified and answered: outside C01's fragment, C02 leaves it open
    if expected_incons:
        viol("inconsistent-evidence-answered", "evidence has probability 0 but inference answered %s" % sorted(res.items()))
        return out
    exp = dict((progs.atom_str(q), float(p)) for q, p in sem["probs"].items())
    for k, v in res.items():
        if k not in exp:
            if abs(v) <= TOL and any(c.isupper() for c in k.split("(", 1)[-1]):
                continue        # a non-ground query without answers is reported as q(X) with probability 0
            viol("unexpected-query-instance", "reported %s=%s which is not an instance of a query" % (k, v))
        elif abs(v - exp[k]) > TOL:
            viol("wrong-probability", "P(%s) = %.10f, possible-world semantics gives %.10f" % (k, v, exp[k]))
    for k, v in exp.items():
        if k not in res and v > TOL:
            viol("missing-query-instance", "%s not reported but has probability %.10f" % (k, v))
    if any(0.0 < v < 1.0 for v in exp.values()):
        out["nontrivial"] = True
    return out


def run(tier, seed, pid="C01"):
    neg_cycles = pid == "C02"
    if neg_cycles:
        n = 30000 if tier == "thorough" else 4000
    else:
        n = 10000 if tier == "thorough" else 1500
    ps = progs.programs(seed * 7919 + (1 if neg_cycles else 0), n, neg_cycles=neg_cycles,
                        max_choices=12 if tier == "thorough" else 9)
    col = Collector("%s:inference-vs-possible-worlds" % pid,
                    "%d seeded random programs of the bounded family (<= 3 probabilistic facts incl. noisy-or repeats and "
                    "non-ground facts, <= 1 AD, <= 4 rules, constants a/b, negation%s, positive recursion, evidence), "
                    "each evaluated by get_evaluatable().create_from(...).evaluate() and compared with exhaustive "
                    "possible-world enumeration (well-founded model per world, exact rationals); distinct = program "
                    "texts; non-trivial = some query probability strictly between 0 and 1, or a required rejection"
                    % (n, " incl. cycles through negation" if neg_cycles else " (predicate-stratified)"))
    results = pmap("bounded.c01.check_one", ps)
    for r in results:
        if r.get("skip"):
            continue
        col.case(r["src"], nontrivial=r["nontrivial"])
        for name, text in r["violations"]:
            vname = "bounded:%s:%s" % (pid.lower(), name)
            if name == "internal-exception" and "AssertionError@eval_nodes.__setitem__" in text:
                # known finding: a second proof for an answer whose first proof was compacted to FALSE
                vname = "bounded:%s:assertion-collapsed-resultset" % pid.lower()
            if name == "spurious-negative-cycle" and "negated-recursive-predicate" in r["classes"]:
                vname = "bounded:%s:spurious-negative-cycle-negated-recursive-predicate" % pid.lower()
            col.violation(vname, "%s on program:\n%s" % (text, r["src"]), dict(program=r["src"]))
    return [col.result()]
