"""C30 bounded stand-in: invalid probabilities through the whole pipeline (probability and log space)."""
import itertools

from bounded.util import Collector, classify_exception

VALID = ["0", "0.0", "0.3", "1", "1.0", "0.5+0.25", "1/4"]
INVALID = ["-0.1", "1.1", "2", "-1", "0.6+0.6", "3/2", "1.00001",
           # values that are not numbers in [0,1] at all: not-a-number and the infinities (every comparison with NaN is false,
           # so a range check written as "reject if below or above" lets it through)
           "nan", "inf", "-inf", "inf-inf", "0*inf"]


def evaluate(src, logspace):
    from problog.program import PrologString
    from problog import get_evaluatable
    from problog.evaluator import SemiringLogProbability, SemiringProbability
    try:
        f = get_evaluatable().create_from(PrologString(src))
        r = f.evaluate(semiring=SemiringLogProbability() if logspace else SemiringProbability())
        return "ok", dict((str(k), v) for k, v in r.items())
    except Exception as e:      # noqa
        return "exc", classify_exception(e)


def run(tier, seed):
    col = Collector("C30:pipeline", "probabilistic facts and annotated disjunctions with probabilities from %s (valid) "
                    "and %s (invalid), AD sums around 1, in rule bodies/heads, probability and log space; an invalid "
                    "annotation must raise InvalidValue, a valid one must be answered; distinct = program texts"
                    % (VALID, INVALID))
    progs = []
    for p in VALID:
        progs.append(("%s::a. query(a)." % p, True))
        progs.append(("%s::a. b :- a. query(b)." % p, True))
        progs.append(("%s::a(1). %s::a(2). q :- a(X). query(q)." % (p, p), True))
    for p in INVALID:
        progs.append(("%s::a. query(a)." % p, False))
        progs.append(("%s::a. b :- a. query(b)." % p, False))
        progs.append(("0.5::c. %s::a :- c. query(a)." % p, False))
        progs.append(("%s::a; 0.1::b. query(a)." % p, False))
        progs.append(("0.4::a; %s::b. query(b)." % p, False))
    for ps in itertools.product(["0.2", "0.5", "0.6", "0.7"], repeat=2):
        s = sum(float(x) for x in ps)
        ok = s <= 1.0 + 1e-9
        progs.append(("%s::a; %s::b. query(a). query(b)." % ps, ok))
        # only one head reaches the ground program (class "partial": see known_findings.json)
        progs.append(("%s::a; %s::b. query(a)." % ps, ok, "partial"))
        progs.append(("0.5::c. %s::a; %s::b :- c. query(b)." % ps, ok, "partial"))
        progs.append(("%s::a(X); %s::b(X) :- d(X). d(1). d(2). query(a(1))." % ps, ok, "partial"))
        progs.append(("%s::a(X); %s::b(X) :- d(X). d(1). d(2). query(a(1)). query(b(1))." % ps, ok))
    for ps in itertools.product(["0.3", "0.4", "0.5"], repeat=3):
        s = sum(float(x) for x in ps)
        progs.append(("%s::a; %s::b; %s::c. query(a). query(b). query(c)." % ps, s <= 1.0 + 1e-9))
        progs.append(("%s::a; %s::b; %s::c. q :- a. q :- b. q :- c. query(q)." % ps, s <= 1.0 + 1e-9))
        # head b never reaches the ground program: the same "partial" class
        progs.append(("%s::a; %s::b; %s::c. query(a). query(c)." % ps, s <= 1.0 + 1e-9, "partial"))
    # a head with probability exactly 1 / 1.0 / 0 / 0.0 next to other heads (all heads queried)
    for one in ("1.0", "1", "1.0e0"):
        for other in ("0.3", "0.0", "0", "1.0"):
            ok = float(other) == 0.0
            progs.append(("%s::a; %s::b. query(a). query(b)." % (one, other), ok))
            progs.append(("%s::b; %s::a. query(a). query(b)." % (other, one), ok))
            progs.append(("0.5::c. %s::a; %s::b :- c. query(a). query(b)." % (one, other), ok))
    # probabilities bound in the body: several ground instances of one annotated disjunction with different sums
    # (valid instances before and after an invalid one, same number of heads)
    for rows in itertools.permutations([("1", "0.5", "0.5"), ("2", "0.6", "0.7"), ("3", "0.2", "0.3")]):
        facts = " ".join("w(%s,%s,%s)." % r for r in rows)
        progs.append(("%s P::a(X); Q::b(X) :- w(X,P,Q). query(a(_)). query(b(_))." % facts, False))
    for rows in itertools.permutations([("1", "0.5", "0.5"), ("2", "0.6", "0.4"), ("3", "0.2", "0.3")]):
        facts = " ".join("w(%s,%s,%s)." % r for r in rows)
        progs.append(("%s P::a(X); Q::b(X) :- w(X,P,Q). query(a(_)). query(b(_))." % facts, True))
    for entry in progs:
        src, valid = entry[0], entry[1]
        klass = entry[2] if len(entry) > 2 else None
        for logspace in (False, True):
            st, res = evaluate(src, logspace)
            col.case((src, logspace))
            tag = "log" if logspace else "prob"
            if st == "exc" and res.startswith("internal:"):
                col.violation("bounded:c30:internal-exception", "%s [%s] raised %s" % (src, tag, res),
                              dict(program=src, logspace=logspace))
            elif valid and st == "exc":
                col.violation("bounded:c30:valid-rejected", "%s [%s] raised %s" % (src, tag, res),
                              dict(program=src, logspace=logspace))
            elif (not valid) and st == "ok":
                name = "bounded:c30:invalid-accepted"
                if klass == "partial":
                    # the AD sum exceeds 1 but only a strict subset of the heads is grounded
                    name = "bounded:c30:ad-sum-unchecked-partial-grounding"
                col.violation(name, "%s [%s] answered %s instead of raising InvalidValue" % (src, tag, res),
                              dict(program=src, logspace=logspace))
            elif (not valid) and "InvalidValue" not in res:
                col.violation("bounded:c30:wrong-error", "%s [%s] raised %s, expected InvalidValue" % (src, tag, res),
                              dict(program=src, logspace=logspace))
    return [col.result()]


