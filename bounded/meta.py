"""Metamorphic run-time contracts on the top-level inference functions (the real system against itself under a
transformation), over the bounded program family.  Stand-ins for C03-C08, C25, C26, C29; never counted as proved."""
import itertools
import random
import warnings

from bounded import progs
from bounded.pipeline import pmap, same_result
from bounded.util import Collector, classify_exception

warnings.simplefilter("ignore")


def _eval(model_or_src, formula_opts=None, evaluatable=None, semiring=None, engine=None, ground_opts=None):
    from problog.program import PrologString
    from problog.formula import LogicFormula
    from problog import get_evaluatable
    try:
        model = PrologString(model_or_src) if isinstance(model_or_src, str) else model_or_src
        if engine is not None:
            db = engine.prepare(model)
            lf = engine.ground_all(db, target=LogicFormula(**(formula_opts or {})), **(ground_opts or {}))
        else:
            opts = dict(formula_opts or {})
            opts.update(ground_opts or {})
            lf = LogicFormula.create_from(model, **opts)
        kc = get_evaluatable(evaluatable).create_from(lf)
        kw = {}
        if semiring is not None:
            kw["semiring"] = semiring
        r = kc.evaluate(**kw)
        return "ok", dict((str(k), float(v) if not isinstance(v, str) else v) for k, v in r.items())
    except Exception as e:      # noqa
        return "exc", classify_exception(e)


def _norm(outcome):
    """NegativeCycle/GroundingError subclasses are one 'rejected' outcome; internal exceptions keep their place."""
    if outcome[0] == "exc" and outcome[1].startswith("problog:"):
        return ("exc", outcome[1])
    return outcome


def _with_error_clause(src):
    """In a quarter of the programs one propositional predicate that has clauses gets one more clause, before or after
    one of them, whose body raises a grounding error (`X is 1/0`): "the same errors" in every exploration order."""
    rng = random.Random(len(src) * 13 + 5)
    if rng.random() > 0.25:
        return src
    lines = src.splitlines()
    idx = [i for i, l in enumerate(lines) if ":-" in l and "(" not in l.split(":-")[0] and "::" not in l.split(":-")[0]
           and l.split(":-")[0].strip().isidentifier()]
    if not idx:
        return src
    i = rng.choice(idx)
    lines.insert(i + rng.randrange(2), "%s :- X is 1/0." % lines[i].split(":-")[0].strip())
    return "\n".join(lines) + "\n"


# ---------------------------------------------------------------- relations (module level: run in worker processes)
def rel_c03(prog):
    """Seeded permutation of every batch of sibling 'e' messages of the default (buffered) engine."""
    from problog.engine_stack import MessageFIFO
    from problog.engine import DefaultEngine
    src = _with_error_clause(progs.render(prog))
    base = _eval(src, engine=DefaultEngine())
    out = dict(src=src, base=base, variants=[])
    for k in range(4):
        rng = random.Random(k * 101 + len(src))

        class ShuffledFIFO(MessageFIFO):
            def __iadd__(self, messages):
                messages = list(messages)
                if len(messages) > 1 and all(m[0] == "e" for m in messages):
                    rng.shuffle(messages)
                for m in messages:
                    self.append(m)
                return self

        class ShuffledEngine(DefaultEngine):
            def init_message_stack(self):
                return ShuffledFIFO(self)
        out["variants"].append(("shuffle-%d" % k, _eval(src, engine=ShuffledEngine())))
    return out


def rel_c04(prog):
    """Unbuffered depth-first, unbuffered rc-first and the random-order queue of docs/source/engine.rst."""
    from problog.engine import DefaultEngine
    from problog.engine_stack import MessageAnyOrder
    from bounded.c01 import classify
    src = progs.render(prog)
    base = _eval(src, engine=DefaultEngine())
    out = dict(src=src, base=base, variants=[], classes=sorted(classify(prog)))
    out["variants"].append(("unbuffered", _eval(src, engine=DefaultEngine(unbuffered=True))))
    out["variants"].append(("unbuffered-rc_first", _eval(src, engine=DefaultEngine(unbuffered=True, rc_first=True))))
    for k in range(2):
        rng = random.Random(k * 7 + len(src))

        class RandomOrderQueue(MessageAnyOrder):
            def __init__(self, engine):
                MessageAnyOrder.__init__(self, engine)
                self.messages_rc = []
                self.messages_e = []

            def append(self, message):
                if message[0] == "e":
                    self.messages_e.append(message)
                else:
                    self.messages_rc.append(message)

            def pop(self):
                if self.messages_rc:
                    return self.messages_rc.pop(-1)
                return self.messages_e.pop(rng.randint(0, len(self.messages_e) - 1))

            def __nonzero__(self):
                return bool(self.messages_e) or bool(self.messages_rc)

            __bool__ = __nonzero__

            def __len__(self):
                return len(self.messages_e) + len(self.messages_rc)

            def __iter__(self):
                return iter(self.messages_e + self.messages_rc)

        class RandomOrderEngine(DefaultEngine):
            def __init__(self):
                DefaultEngine.__init__(self, unbuffered=True)

            def init_message_stack(self):
                return RandomOrderQueue(self)
        out["variants"].append(("random-order-%d" % k, _eval(src, engine=RandomOrderEngine())))
    return out


def rel_c05(prog):
    """Available exact back ends x semirings."""
    from problog.evaluator import SemiringProbability, SemiringLogProbability, SemiringSymbolic
    from problog import get_evaluatables

    class SemiringProbabilityCopy(SemiringProbability):
        """A user-defined probability semiring."""

    class SemiringProbabilityNSPCopy(SemiringProbability):
        def is_nsp(self):
            return True

        def is_dsp(self):
            return False
    src = progs.render(prog)
    base = _eval(src)
    out = dict(src=src, base=base, variants=[])
    backends = [b for b in get_evaluatables() if b in ("ddnnf", "sdd", "sddx", "bdd", "fsdd", "fbdd")]
    out["backends"] = backends
    for b in backends:
        out["variants"].append(("backend-" + b, _eval(src, evaluatable=b)))
    out["variants"].append(("semiring-log", _eval(src, semiring=SemiringLogProbability())))
    out["variants"].append(("semiring-custom", _eval(src, semiring=SemiringProbabilityCopy())))
    out["variants"].append(("semiring-custom-nsp", _eval(src, semiring=SemiringProbabilityNSPCopy())))
    sym = _eval(src, semiring=SemiringSymbolic())
    if sym[0] == "ok":
        try:
            sym = ("ok", dict((k, float(eval(v, {"__builtins__": {}}, {})) if isinstance(v, str) else v)
                             for k, v in sym[1].items()))
            if base[0] == "exc" and "InconsistentEvidence" in base[1]:
                # the symbolic semiring cannot decide that a weight expression is zero, so it cannot reject evidence of
                # probability 0; the property asks for "the same number" and the reference has no number here
                sym = base
        except ZeroDivisionError:
            sym = base
        except Exception as e:  # noqa
            sym = ("exc", "internal:symbolic-expression-not-evaluable:%s" % type(e).__name__)
    out["variants"].append(("semiring-symbolic", sym))
    return out


OPTS = [("keep_order", True), ("keep_all", True), ("keep_duplicates", True), ("avoid_name_clash", True),
        ("label_all", True), ("hide_builtins", True)]


def rel_c06(prog):
    """Semantics-neutral options and the equivalent spellings of evidence."""
    from problog.evaluator import SemiringProbability, SemiringLogProbability
    src = progs.render(prog)
    base = _eval(src)
    out = dict(src=src, base=base, variants=[])
    rng = random.Random(len(src))
    for name, val in OPTS:
        out["variants"].append((name, _eval(src, formula_opts={name: val})))
    out["variants"].append(("propagate_evidence", _eval(src, ground_opts={"propagate_evidence": True})))
    out["variants"].append(("propagate_weights", _eval(src, formula_opts={"propagate_weights": SemiringProbability()})))
    out["variants"].append(("propagate_evidence+weights", _eval(src, formula_opts={"propagate_weights": SemiringProbability()},
                                                              ground_opts={"propagate_evidence": True})))
    out["variants"].append(("keep_all+propagate_weights", _eval(src, formula_opts={"keep_all": True,
                                                                                  "propagate_weights": SemiringProbability()})))
    out["variants"].append(("log-space", _eval(src, semiring=SemiringLogProbability())))
    out["variants"].append(("propagate_weights-log-space", _eval(src, formula_opts={"propagate_weights": SemiringLogProbability()},
                                                              semiring=SemiringLogProbability())))
    for _ in range(2):
        combo = dict((n, v) for n, v in OPTS if rng.random() < 0.5)
        go = {"propagate_evidence": True} if rng.random() < 0.5 else {}
        out["variants"].append(("combo:%s%s" % (sorted(combo), "+pe" if go else ""),
                                _eval(src, formula_opts=combo, ground_opts=go)))
    # evidence spellings
    # evidence spellings: every evidence statement is respelled in place, nothing else changes
    if any(s[0] == "evidence" for s in prog):
        def spelled(s, i):
            at = progs.atom_str(s[1])
            if i == 0:
                return "evidence(%s)." % at if s[2] else "evidence(\\+%s)." % at
            return "evidence(%s,%s)." % (at, "true" if s[2] else "false")
        for i in range(2):
            text = "\n".join(spelled(s, i) if s[0] == "evidence" else progs.stmt_str(s) for s in prog) + "\n"
            out["variants"].append(("evidence-spelling-%d" % i, _eval(text)))
    return out


def _safe_body_perms(body, rng):
    """Permutations of a body that keep every negated literal after the positive literals binding its variables."""
    idx = list(range(len(body)))
    for _ in range(6):
        rng.shuffle(idx)
        cand = [body[i] for i in idx]
        bound = set()
        ok = True
        for pos, a in cand:
            vs = set(x for x in a[1] if progs.is_var(x))
            if not pos and not vs <= bound:
                ok = False
                break
            if pos:
                bound |= vs
        if ok:
            return cand
    return list(body)


def rel_c07(prog):
    """Permutations of statements, clauses and body literals."""
    src = progs.render(prog)
    base = _eval(src)
    out = dict(src=src, base=base, variants=[])
    for k in range(4):
        rng = random.Random(k * 31 + len(src))
        p2 = []
        for s in prog:
            if s[0] == "rule" and len(s[2]) > 1:
                p2.append(("rule", s[1], _safe_body_perms(s[2], rng)))
            elif s[0] == "ad" and len(s[2]) > 1:
                p2.append(("ad", s[1], _safe_body_perms(s[2], rng)))
            else:
                p2.append(s)
        rng.shuffle(p2)
        out["variants"].append(("permutation-%d" % k, _eval(progs.render(p2))))
    return out


def rel_c08(prog):
    """Each query grounded alone (same evidence) vs all queries grounded into one formula, in any order,
    with a shared target formula / a reused prepared database."""
    from problog.program import PrologString
    from problog.engine import DefaultEngine
    from problog.formula import LogicFormula
    from problog.logic import Term
    from problog import get_evaluatable
    src = progs.render(prog)
    base = _eval(src)
    out = dict(src=src, base=base, variants=[])
    if base[0] != "ok":
        return out
    queries = [s for s in prog if s[0] == "query"]
    rest = [s for s in prog if s[0] != "query"]
    # (a) each query alone, fresh everything
    merged = {}
    status = "ok"
    for q in queries:
        r = _eval(progs.render(rest + [q]))
        if r[0] != "ok":
            status = r
            break
        merged.update(r[1])
    out["variants"].append(("single-query-groundings", ("ok", merged) if status == "ok" else status))
    # (b) one prepared database, successive ground() calls into one shared target, random order
    try:
        rng = random.Random(len(src))
        eng = DefaultEngine()
        db = eng.prepare(PrologString(progs.render(rest)))
        target = LogicFormula()
        qs = list(queries)
        rng.shuffle(qs)
        evid = [s for s in prog if s[0] == "evidence"]
        for q in qs:
            target = eng.ground(db, Term.from_string(progs.atom_str(q[1]).replace("_", "X")), target, label=target.LABEL_QUERY)
        for e in evid:
            target = eng.ground(db, Term.from_string(progs.atom_str(e[1])), target,
                                label=target.LABEL_EVIDENCE_POS if e[2] else target.LABEL_EVIDENCE_NEG)
        r = get_evaluatable().create_from(target).evaluate()
        out["variants"].append(("shared-target-random-order", ("ok", dict((str(k), float(v)) for k, v in r.items()))))
        # (c) the same prepared database reused for a second, fresh grounding
        t2 = eng.ground_all(db, queries=[Term.from_string(progs.atom_str(q[1]).replace("_", "X")) for q in queries],
                            evidence=[(Term.from_string(progs.atom_str(e[1])), Term("true" if e[2] else "false"))
                                      for e in evid])
        r2 = get_evaluatable().create_from(t2).evaluate()
        out["variants"].append(("reused-prepared-db", ("ok", dict((str(k), float(v)) for k, v in r2.items()))))
    except Exception as e:      # noqa
        out["variants"].append(("shared-target-random-order", ("exc", classify_exception(e))))
    # (d) the evidence written as evidence/1 in the program, the queries added one ground_all call at a time to the
    #     same target, with evidence propagation (as the learning code grounds)
    try:
        ev1 = "".join("evidence(%s%s).\n" % ("" if e[2] else "\\+", progs.atom_str(e[1])) for e in prog if e[0] == "evidence")
        eng = DefaultEngine()
        db = eng.prepare(PrologString(progs.render(rest) + ev1))
        target = LogicFormula()
        for q in queries:
            eng.ground_all(db, target=target, queries=[Term.from_string(progs.atom_str(q[1]).replace("_", "X"))],
                           propagate_evidence=True)
        r = get_evaluatable().create_from(target).evaluate()
        out["variants"].append(("query-by-query-ground_all", ("ok", dict((str(k), float(v)) for k, v in r.items()))))
    except Exception as e:      # noqa
        out["variants"].append(("query-by-query-ground_all", ("exc", classify_exception(e))))
    return out


RELATIONS = {"C03": rel_c03, "C04": rel_c04, "C05": rel_c05, "C06": rel_c06, "C07": rel_c07, "C08": rel_c08}
DESCR = {
    "C03": "default buffered engine with every batch of sibling 'e' messages permuted (4 seeded permutations per program, "
           "MessageFIFO subclass returned from an overridden init_message_stack: no repository hook)",
    "C04": "unbuffered depth-first, unbuffered rc-first and 2 seeded random e-message orders (the engine.rst queue)",
    "C05": "every available exact back end x {log, user-defined copy, NSP copy, symbolic} semirings",
    "C06": "each semantics-neutral option alone, 2 sampled combinations, log space, evidence spellings",
    "C07": "4 seeded permutations of statements and of body literals (negated literals kept after their binders)",
    "C08": "single-query groundings vs one shared target grounded query by query in random order vs a reused prepared db",
}


def run(pid, tier, seed):
    n = 3000 if tier == "thorough" else (800 if pid in ("C03", "C04") else 300)
    ps = progs.programs(seed * 104729 + int(pid[1:]), n, max_choices=10, extreme=pid in ("C05", "C06"),
                        compound=pid in ("C03", "C04", "C07", "C08"), unfounded=pid in ("C03", "C07"),
                        more_cycles=pid in ("C03", "C04"))
    col = Collector("%s:metamorphic" % pid,
                    "%d seeded programs of the bounded family; %s; each variant must give the same accept/reject decision, "
                    "the same reported instances and probabilities (1e-7) as the reference run; distinct = program "
                    "texts; non-trivial = reference answers with a probability strictly between 0 and 1"
                    % (n, DESCR[pid]))
    results = pmap("bounded.meta." + RELATIONS[pid].__name__, ps)
    from bounded.c01 import classify
    for prog, r in zip(ps, results):
        r["classes"] = sorted(classify(prog))
        r["has_negation"] = any((not pos) for s in prog if s[0] in ("rule", "ad") for pos, _ in s[2])
        base = r["base"]
        nontrivial = base[0] == "ok" and any(0.0 < v < 1.0 for v in base[1].values() if isinstance(v, float))
        col.case(r["src"], nontrivial=nontrivial)
        for label, outcome in r["variants"]:
            if same_result(_norm(base), _norm(outcome)):
                if pid in ("C03", "C07") and base[0] == "ok" and set(base[1]) != set(outcome[1]):
                    # these two properties also speak about the *set of reported query instances*: the runs agree on
                    # all probabilities but name different instances with probability 0
                    unf = "s(X) :- " in r["src"] and "s(Y)" in r["src"]
                    col.violation("bounded:%s:%s:zero-probability-instances%s" % (pid.lower(), label.split("-")[0],
                                                                                 "-of-unfounded-loop" if unf else ""),
                                  "variant %s reports the instances %s, the reference %s (same probabilities), program:\n%s"
                                  % (label, sorted(outcome[1]), sorted(base[1]), r["src"]), dict(program=r["src"], variant=label))
                continue
            kind = label.split("-")[0].split(":")[0]
            if outcome[0] == "exc" and "InstallError" in outcome[1]:
                continue        # back end not installed in this sandbox
            name = "bounded:%s:%s" % (pid.lower(), kind)
            both = "%s %s" % (outcome[1] if outcome[0] == "exc" else "", base[1] if base[0] == "exc" else "")
            if "AssertionError@eval_nodes.__setitem__" in both:
                # known failure mode (see known_findings.json): crash of either run in ResultSet.__setitem__
                name = "bounded:%s:assertion-collapsed-resultset" % pid.lower()
            elif pid == "C04" and kind in ("random", "unbuffered") and outcome[0] == "exc" and \
                    ("IndirectCallCycleError" in outcome[1] or "InvalidEngineState@engine_stack.execute" in outcome[1]) \
                    and "recursive-predicate" in r.get("classes", ()):
                name = "bounded:c04:unbuffered-engines-on-cyclic-programs"
            elif (("NegativeCycle" in (outcome[1] if outcome[0] == "exc" else "")) !=
                  ("NegativeCycle" in (base[1] if base[0] == "exc" else ""))) and \
                    {"recursive-predicate"} <= set(r.get("classes", ())) and r.get("has_negation"):
                # known: one of the two runs raises NegativeCycle, the other answers (call-stack based detection)
                name = "bounded:%s:order-dependent-negative-cycle" % pid.lower()
            elif outcome[0] == "exc" and outcome[1].startswith("internal:"):
                name = "bounded:%s:%s:%s" % (pid.lower(), kind, outcome[1].split(":", 1)[1])
            elif base[0] == "exc" and base[1].startswith("internal:"):
                name = "bounded:%s:reference-run:%s" % (pid.lower(), base[1].split(":", 1)[1])
            col.violation(name, "variant %s gives %s, reference gives %s, program:\n%s" % (
                label, _short(outcome), _short(base), r["src"]), dict(program=r["src"], variant=label))
    return [col.result()]


def _short(o):
    if o[0] == "exc":
        return o[1]
    return sorted(o[1].items())
