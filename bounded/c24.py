"""C24 bounded stand-in: two-state run-time contract on LFIProblem.step (problog/learning/lfi.py), iterated on the real
object with the command line's defaults (normalize=True, propagate_evidence=True):
  * the data log-likelihood returned by successive steps never decreases (1e-7),
  * after every step each learned parameter is in [0,1] and the parameters of one annotated disjunction sum to <= 1,
  * when every tunable fact / AD head is observed in every example (and exactly one head of the AD holds in each),
    the first step returns the relative frequencies.
Programs: 1-2 t(_) facts (30%: 3-5 facts started at t(0.001..0.03) with true parameters 0.5-0.9), optionally one t(_) AD with 2-3 heads, 0-2 rules; 30 examples sampled (VERIF_SEED) from a
reference parameter setting, complete or partial.  Never counted as proved."""
import contextlib
import io
import random

from bounded.pipeline import pmap
from bounded.util import Collector, classify_exception


def gen(rng):
    small = rng.random() < 0.3
    nf = rng.randint(3, 5) if small else rng.randint(1, 2)
    facts = ["f%d" % i for i in range(nf)]
    heads = []
    if rng.random() < 0.5:
        heads = ["h%d" % i for i in range(rng.randint(2, 3))]
    # (small: more facts, started from explicit tiny values, so that the probability of an example's evidence starts
    # many orders of magnitude below where it ends)
    lines = ["t(%s)::%s." % (rng.choice(["0.01", "0.001", "0.03"]) if small else "_", f) for f in facts]
    # heads with a fixed probability next to the tunable ones (in a third of the disjunctions); with one tunable head
    # only, the learned value is known not to be normalised (listed finding)
    fixed = []
    if heads and rng.random() < 0.35:
        fixed = [("x%d" % i, rng.choice([0.1, 0.2, 0.3])) for i in range(rng.randint(1, 2))]
        if rng.random() < 0.25:
            heads = heads[:1]
    if heads:
        lines.append("; ".join(["%s::%s" % (p, x) for x, p in fixed] + ["t(_)::%s" % h for h in heads]) + ".")
    atoms = facts + heads + [x for x, _ in fixed]
    rules = []
    derived = []
    for k in range(rng.randint(0, 2)):
        body = rng.sample(atoms, min(len(atoms), rng.randint(1, 2)))
        lits = [("\\+" if rng.random() < 0.25 else "") + b for b in body]
        d = "u%d" % k
        rules.append("%s :- %s." % (d, ", ".join(lits)))
        derived.append((d, list(zip(body, [l.startswith("\\+") for l in lits]))))
    true_p = dict((f, rng.choice([0.5, 0.8, 0.9] if small else [0.2, 0.35, 0.5, 0.8])) for f in facts)
    if heads:
        ws = [rng.randint(1, 5) for _ in heads]
        rest = 1.0 - sum(p for _, p in fixed)
        for h, w in zip(heads, ws):
            true_p[h] = rest * w / float(sum(ws))          # the reference AD always selects a head
        for x, p in fixed:
            true_p[x] = p
    complete = rng.random() < 0.5
    examples = []
    for _ in range(30):
        world = dict((f, rng.random() < true_p[f]) for f in facts)
        if heads:
            allh = [x for x, _ in fixed] + heads
            u, acc, chosen = rng.random(), 0.0, allh[-1]
            for h in allh:
                acc += true_p[h]
                if u < acc:
                    chosen = h
                    break
            for h in allh:
                world[h] = h == chosen
        for d, body in derived:
            world[d] = all(world[b] != neg for b, neg in body)
        if complete:
            obs = atoms + [d for d, _ in derived]
        else:
            obs = [a for a in atoms + [d for d, _ in derived] if rng.random() < 0.6] or [atoms[0]]
        examples.append([(a, world[a]) for a in obs])
    return dict(model="\n".join(lines + rules) + "\n", facts=facts, heads=heads, examples=examples, complete=complete,
                fixed=fixed)


def check_one(seed):
    from problog.program import PrologString
    from problog.logic import Term
    from problog.learning.lfi import LFIProblem
    import logging
    logging.getLogger("problog_lfi").setLevel(logging.ERROR)
    rng = random.Random(seed)
    case = gen(rng)
    exs = [[(Term(a), v) for a, v in ex] for ex in case["examples"]]
    out = dict(src=case["model"] + "%% %s data, first examples: %s" % ("complete" if case["complete"] else "partial",
                                                                      case["examples"][:3]),
               violations=[], nontrivial=True)
    buf = io.StringIO()
    try:
        with contextlib.redirect_stdout(buf), contextlib.redirect_stderr(buf):
            random.seed(seed)
            lfi = LFIProblem(PrologString(case["model"]), exs, max_iter=50, min_improv=1e-10, normalize=True,
                             propagate_evidence=True)
            lfi.prepare()
            names = [str(n.with_probability()) for n in lfi.names]
            prev = None
            for it in range(12):
                ll, conv = lfi.step()
                ws = {}
                for i, nm in enumerate(names):
                    for w_args, w_val in lfi.get_weights(i):
                        ws[nm] = float(w_val)
                if prev is not None and ll < prev - 1e-7:
                    out["violations"].append(("log-likelihood-decreased", "iteration %d: log-likelihood %.10f after %.10f"
                                              % (it + 1, ll, prev)))
                    break
                prev = ll
                bad = [(k, v) for k, v in ws.items() if not (-1e-9 <= v <= 1 + 1e-9)]
                if bad:
                    out["violations"].append(("parameter-out-of-range", "iteration %d: %s" % (it + 1, bad)))
                    break
                if case["heads"]:
                    s = sum(ws.get(h, 0.0) for h in case["heads"]) + sum(p for _, p in case.get("fixed", ()))
                    if s > 1 + 1e-9:
                        single = ":single-tunable-head-with-fixed-heads" if case.get("fixed") and len(case["heads"]) == 1 else ""
                        out["violations"].append(("ad-sum-above-one" + single, "iteration %d: the AD parameters %s sum to %.10f"
                                                  % (it + 1, [(h, ws.get(h)) for h in case["heads"]], s)))
                        break
                if it == 0 and case["complete"] and not case.get("fixed"):
                    n = float(len(case["examples"]))
                    freq = dict((a, sum(1 for ex in case["examples"] if dict(ex).get(a)) / n) for a in case["facts"] + case["heads"])
                    diff = [(a, ws.get(a), freq[a]) for a in freq if a in ws and abs(ws[a] - freq[a]) > 1e-9]
                    missing = [a for a in freq if a not in ws]
                    if diff or missing:
                        out["violations"].append(("complete-data-not-relative-frequency", "after one iteration on complete data "
                                                  "(parameter, learned, relative frequency): %s; not learned: %s" % (diff, missing)))
                        break
    except Exception as e:      # noqa
        c = classify_exception(e)
        if c.startswith("problog:") and not case["complete"]:
            out["nontrivial"] = False       # e.g. a partial example that is inconsistent with the model structure
        else:
            out["violations"].append(("exception:" + c.split(":", 1)[1], "LFI raised %s (%s)" % (c, str(e)[:100])))
    return out


def run(pid, tier, seed):
    n = 1500 if tier == "thorough" else 200
    col = Collector("C24:lfi-step-contract",
                    "%d seeded learning problems (1-2 t(_) facts, or in 30%% of them 3-5 facts with explicit start values 0.001-0.03 and reference parameters 0.5-0.9, optionally one t(_) annotated disjunction with 2-3 heads, 0-2 "
                    "rules with possibly negated literals; 30 examples sampled from a reference setting in which the AD always "
                    "selects a head; half of the problems with complete observations, half observing each atom with probability "
                    "0.6); LFIProblem with the command line's defaults, 12 calls of step(); non-trivial = the problem was "
                    "learnable (no ProbLog error on a partial data set)" % n)
    for r in pmap("bounded.c24.check_one", [seed * 373587883 + i for i in range(n)]):
        col.case(r["src"], nontrivial=r["nontrivial"])
        for name, text in r["violations"]:
            col.violation("bounded:c24:" + name, "%s on problem:\n%s" % (text, r["src"]), dict(problem=r["src"]))
    return [col.result()]
