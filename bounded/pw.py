"""Possible-world reference semantics for the bounded program family (exact rationals).

Each grounding of a whole probabilistic clause is one independent choice; the heads of one AD grounding are
mutually exclusive with a residual "none"; the same fact stated twice is two choices (noisy-or).  Per total
choice the model is the well-founded model (alternating fixpoint).  Only used by bounded stand-ins.
"""
import itertools
from fractions import Fraction

from bounded.progs import CONSTS, is_var, vars_of


def subst(atom, th):
    return (atom[0], tuple(th.get(x, x) for x in atom[1]))


def groundings(vs):
    vs = sorted(set(v for v in vs if v != "_"))
    for combo in itertools.product(CONSTS, repeat=len(vs)):
        yield dict(zip(vs, combo))


class Ground(object):
    def __init__(self, prog):
        self.rules = []      # (head, [(pos, atom)], choice or None) ; choice = (choice_id, option)
        self.choices = []    # list of [Fraction weights per option] ; last option = "none"
        self.queries = []
        self.evidence = []
        for s in prog:
            k = s[0]
            if k == "fact":
                vs = vars_of(s[2])
                for th in groundings(vs):
                    cid = len(self.choices)
                    self.choices.append([s[1], 1 - s[1]])
                    self.rules.append((subst(s[2], th), [], (cid, 0)))
            elif k == "ad":
                vs = []
                for _, a in s[1]:
                    vs += vars_of(a)
                for l in s[2]:
                    vs += vars_of(l[1])
                for th in groundings(vs):
                    cid = len(self.choices)
                    ws = [p for p, _ in s[1]]
                    self.choices.append(ws + [1 - sum(ws)])
                    body = [(pos, subst(a, th)) for pos, a in s[2]]
                    for i, (_, h) in enumerate(s[1]):
                        self.rules.append((subst(h, th), body, (cid, i)))
            elif k == "rule":
                vs = vars_of(s[1])
                for l in s[2]:
                    vs += vars_of(l[1])
                for th in groundings(vs):
                    self.rules.append((subst(s[1], th), [(pos, subst(a, th)) for pos, a in s[2]], None))
            elif k == "query":
                a = s[1]
                if "_" in a[1]:
                    for c in CONSTS:
                        self.queries.append((a[0], tuple(c if x == "_" else x for x in a[1])))
                else:
                    self.queries.append(a)
            elif k == "evidence":
                self.evidence.append((s[1], s[2]))
        seen = []
        for q in self.queries:
            if q not in seen:
                seen.append(q)
        self.queries = seen
        self.atoms = set()
        for h, b, _ in self.rules:
            self.atoms.add(h)
            for _, a in b:
                self.atoms.add(a)

    def wfm(self, sel):
        """Well-founded model for the total choice sel (choice id -> option): (true set, undefined set)."""
        active = [(h, b) for h, b, c in self.rules if c is None or sel[c[0]] == c[1]]

        def lfp(assume_false_when_neg_in):
            # least model of the reduct w.r.t. the set I: a negative literal \\+a holds iff a not in I
            I = assume_false_when_neg_in
            T = set()
            changed = True
            while changed:
                changed = False
                for h, b in active:
                    if h in T:
                        continue
                    if all((a in T) if pos else (a not in I) for pos, a in b):
                        T.add(h)
                        changed = True
            return T
        lower, upper = set(), set(self.atoms)
        while True:
            new_upper = lfp(lower)
            new_lower = lfp(new_upper)
            if new_lower == lower and new_upper == upper:
                break
            lower, upper = new_lower, new_upper
        return lower, upper - lower

    def worlds(self):
        ranges = [range(len(c)) for c in self.choices]
        for sel in itertools.product(*ranges):
            w = Fraction(1)
            for c, o in zip(self.choices, sel):
                w *= c[o]
            if w == 0:
                continue
            yield sel, w

    def has_negative_cycle(self):
        """Negative cycle in the full ground dependency graph (over all rules, ignoring choices)."""
        pos_edges, neg_edges = {}, {}
        for h, b, _ in self.rules:
            for pos, a in b:
                (pos_edges if pos else neg_edges).setdefault(h, set()).add(a)

        def reach(src):
            seen, todo = set(), [src]
            while todo:
                x = todo.pop()
                for y in list(pos_edges.get(x, ())) + list(neg_edges.get(x, ())):
                    if y not in seen:
                        seen.add(y)
                        todo.append(y)
            return seen
        for h, negs in neg_edges.items():
            for a in negs:
                if h == a or h in reach(a):
                    return True
        return False

    def negative_cycle_through_positive_cycle(self):
        """Some atom that lies on a cycle through negation (full ground dependency graph) also lies on a cycle made of
        positive dependencies only.  Used to delimit one known finding: the engine's cycle detection loses a
        negative cycle whose path crosses nodes already marked as being on a (positive) cycle."""
        pos_edges, all_edges = {}, {}
        neg_pairs = []
        for h, b, _ in self.rules:
            for pos, a in b:
                all_edges.setdefault(h, set()).add(a)
                if pos:
                    pos_edges.setdefault(h, set()).add(a)
                else:
                    neg_pairs.append((h, a))

        def reach(src, edges):
            seen, todo = set(), [src]
            while todo:
                x = todo.pop()
                for y in edges.get(x, ()):
                    if y not in seen:
                        seen.add(y)
                        todo.append(y)
            return seen
        on_neg = set()
        for h, a in neg_pairs:
            ra = reach(a, all_edges)
            if h == a or h in ra:
                # every atom on some path a ->* h lies on this cycle's strongly connected component
                comp = set(x for x in ra | {a} if h in reach(x, all_edges) or x == h)
                on_neg |= comp | {h, a}
        return any(x in reach(x, pos_edges) for x in on_neg)


def semantics(prog, max_worlds=20000):
    """-> dict(status=..., probs={atom: Fraction}, evidence_weight=Fraction, undefined=bool, negcycle=bool)"""
    g = Ground(prog)
    n = 1
    for c in g.choices:
        n *= len(c)
    if n > max_worlds:
        return dict(status="too-large")
    zq = dict((q, Fraction(0)) for q in g.queries)
    ze = Fraction(0)
    undefined_relevant = False
    undefined_consistent = False
    for sel, w in g.worlds():
        true, undef = g.wfm(sel)
        rel = [q for q in g.queries] + [a for a, _ in g.evidence]
        if any(a in undef for a in rel):
            undefined_relevant = True
            # ... in a world in which the evidence holds (with evidence propagation the engine never visits the
            # worlds the evidence excludes, so only these can be demanded to be rejected there)
            if all(a not in undef and ((a in true) == v) for a, v in g.evidence):
                undefined_consistent = True
            continue
        if all((a in true) == v for a, v in g.evidence):
            ze += w
            for q in g.queries:
                if q in true:
                    zq[q] += w
    out = dict(status="ok", evidence_weight=ze, undefined=undefined_relevant, negcycle=g.has_negative_cycle(),
               negcycle_mixed=g.negative_cycle_through_positive_cycle(), undefined_consistent=undefined_consistent,
               queries=list(g.queries))
    if ze > 0:
        out["probs"] = dict((q, zq[q] / ze) for q in g.queries)
    else:
        out["probs"] = None
    return out
