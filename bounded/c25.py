"""C25 / C26 / C29 bounded stand-ins (metamorphic run-time contracts)."""
import random

from bounded import progs
from bounded.meta import _eval, _norm, _short
from bounded.pipeline import pmap, same_result
from bounded.util import Collector, classify_exception


GROUND_OPTS = dict(label_all=True, avoid_name_clash=True, keep_order=True, keep_all=False, keep_duplicates=False,
                   hide_builtins=False, propagate_evidence=False, propagate_weights=None, args=None)


def _ground_task(src, *flags):
    """The ground task itself (problog.tasks.ground.main) on a temporary file -> (ok, text or exception class)."""
    import contextlib
    import io
    import os
    import tempfile
    from problog.tasks import ground
    fd, path = tempfile.mkstemp(suffix=".pl")
    os.write(fd, src.encode())
    os.close(fd)
    try:
        buf = io.StringIO()
        with contextlib.redirect_stdout(buf), contextlib.redirect_stderr(buf):
            try:
                ok, res = ground.main([path] + list(flags))
            except SystemExit:
                # the task printed the error and exited: recover the exception class from the printed trace
                import re
                names = re.findall(r"^([A-Za-z_][\w.]*(?:Error|Exception|Cycle|Clause)\w*)\b", buf.getvalue(), re.M)
                where = re.findall(r'File ".*?/(\w+)\.py", line \d+, in (\w+)', buf.getvalue())
                return False, "task-exit:%s%s" % (names[-1] if names else "unknown",
                                                  "@%s.%s" % where[-1] if where else "")
        if ok:
            return True, res
        return False, classify_exception(res)
    finally:
        os.unlink(path)


def check_c25(prog):
    """The ground program written by the ground task as ProbLog text (with and without --break-cycles) evaluates to the
    same probabilities as the original program; the DIMACS text written by `ground --format cnf` (with and without
    -v, i.e. with and without the comment block of names) has exactly the clauses of the internal CNF."""
    from problog.program import PrologString
    from problog.formula import LogicDAG
    from problog.cnf_formula import CNF
    from problog.parser import DefaultPrologParser
    from problog.program import ExtendedPrologFactory
    src = prog if isinstance(prog, str) else progs.render(prog)
    base = _eval(src)
    out = dict(src=src, base=base, violations=[], nontrivial=False)
    if base[0] != "ok":
        out["skip"] = True
        return out
    out["nontrivial"] = any(0.0 < v < 1.0 for v in base[1].values())
    reserved = isinstance(prog, str) and ("choice(" in src or "body_" in src)
    for label, flags in (("to_prolog", ["--format", "pl"]), ("to_prolog-acyclic", ["--format", "pl", "--break-cycles"])):
        ok, text = _ground_task(src, *flags)
        if not ok:
            out["violations"].append((label + ":export-exception:" + text.split(":", 1)[1], "ground %s raised %s"
                                      % (" ".join(flags), text)))
            continue
        r = _eval(text)
        if not same_result(base, r):
            kind = "re-evaluation"
            if r[0] == "exc":
                kind = "re-evaluation-error:" + r[1].split(":", 1)[1]
            # the two listed known findings, decided on the exported text itself
            heads = set()
            for line in text.splitlines():
                h = line.split(":-")[0].strip().rstrip(".")
                heads.add(h.split("::")[-1].strip())
            if reserved:
                # user predicates with the names the exporter uses for its own auxiliary nodes (choice/1, body_*)
                kind = "reserved-predicate-name:" + kind
            elif "None" in text.replace(",", " ").replace(".", " ").split():
                # an unnamed disjunction node (explicit ';' in a body) is printed as None
                kind = "unnamed-disjunction:" + kind
            elif (r[0] == "exc" and "UnknownClause" in r[1]) or \
                    (r[0] == "ok" and all(k not in heads for k in set(base[1]) | set(r[1])
                                          if abs(base[1].get(k, 0.0) - r[1].get(k, 0.0)) > 1e-7)):
                # every atom that differs has no clause at all in the export: it shares its node with another atom
                # of the same ground definition and only one name per node is written
                kind = "re-evaluation:undefined-shared-atom"
            out["violations"].append((label + ":" + kind, "exported text evaluates to %s, original to %s; exported text:\n%s"
                                      % (_short(r), _short(base), text)))
    # DIMACS
    try:
        model = PrologString(src, parser=DefaultPrologParser(ExtendedPrologFactory()))
        cnf = CNF.createFrom(LogicDAG.createFrom(model, **GROUND_OPTS))
        internal = [sorted(int(x) for x in (c[1:] if isinstance(c[0], bool) or c[0] is None else c))
                    for c in cnf._clauses if c and c[0] != "c"]
    except Exception as e:      # noqa
        out["violations"].append(("dimacs:exception", classify_exception(e)))
        return out
    for label, flags in (("dimacs", ["--format", "cnf"]), ("dimacs-names", ["--format", "cnf", "-v"])):
        ok, text = _ground_task(src, *flags)
        if not ok:
            out["violations"].append((label + ":exception", "ground %s raised %s" % (" ".join(flags), text)))
            continue
        try:
            lines = [l for l in text.splitlines() if l.strip() and not l.startswith("c")]
            header = lines[0].split()
            read = [sorted(int(x) for x in l.split()[:-1]) for l in lines[1:]]
            if header[:2] != ["p", "cnf"] or int(header[2]) != cnf.atomcount or int(header[3]) != len(read):
                out["violations"].append((label + ":header", "header %s for %d variables / %d clause lines"
                                          % (header, cnf.atomcount, len(read))))
            if sorted(read) != sorted(internal) or any(not l.rstrip().endswith(" 0") for l in lines[1:]):
                out["violations"].append((label + ":clauses", "DIMACS clauses %s differ from internal %s; text:\n%s"
                                          % (sorted(read), sorted(internal), text)))
        except Exception as e:      # noqa
            out["violations"].append((label + ":unreadable", "%s: %s; text:\n%s" % (type(e).__name__, e, text)))
    return out


def _instance_of(key, atom):
    """Is the reported answer `key` (a string) a ground instance of the query atom?"""
    name = key.split("(")[0]
    if name != atom[0] or any(c.isupper() for c in key.split("(", 1)[-1]):
        return False
    args = key[len(name) + 1:-1].split(",") if "(" in key else []
    if len(args) != len(atom[1]):
        return False
    return all(a == "_" or progs.is_var(a) or a == b for a, b in zip(atom[1], args))


def check_c26(prog):
    """subquery(Goal, P) binds P to the probability top-level inference reports; subquery/3 to the conditional."""
    from problog.program import PrologString
    from problog.engine import DefaultEngine
    from problog.logic import Term
    qs = [s for s in prog if s[0] == "query"]
    rest = [s for s in prog if s[0] not in ("query", "evidence")]
    ev = [s for s in prog if s[0] == "evidence"]
    src_plain = progs.render(rest + qs)
    base = _eval(src_plain)
    out = dict(src=progs.render(prog), base=base, violations=[], nontrivial=False)
    if base[0] != "ok":
        out["skip"] = True
        return out
    out["nontrivial"] = any(0.0 < v < 1.0 for v in base[1].values())
    for q in qs:
        goal = progs.atom_str(q[1]).replace("_", "X")
        wrapper = progs.render(rest) + "ask(G,P) :- G = %s, subquery(G, P).\n" % goal
        try:
            e = DefaultEngine()
            db = e.prepare(PrologString(wrapper))
            res = e.query(db, Term("ask", None, None))
            got = dict((str(a[0]), float(a[1])) for a in res)
        except Exception as ex:      # noqa
            out["violations"].append(("subquery2:exception:" + classify_exception(ex).split(":", 1)[1],
                                      "subquery(%s, P) raised %s" % (goal, classify_exception(ex))))
            continue
        exp = dict((k, v) for k, v in base[1].items() if _instance_of(k, q[1]))
        for k in set(exp) | set(got):
            if abs(exp.get(k, 0.0) - got.get(k, 0.0)) > 1e-7:
                out["violations"].append(("subquery2:value", "subquery(%s,P): %s, top level: %s" % (goal, sorted(got.items()), sorted(exp.items()))))
                break
    # a ground goal and its negation, in both spellings of the negation
    for q in qs:
        goal = progs.atom_str(q[1])
        if "_" in goal or any(progs.is_var(a) for a in q[1][1]) or goal not in base[1]:
            continue
        for neg in ("\\+%s", "not(%s)"):
            g2 = neg % goal
            wrapper = progs.render(rest) + "ask(P) :- subquery(%s, P).\n" % g2
            try:
                e = DefaultEngine()
                db = e.prepare(PrologString(wrapper))
                got = [float(a[0]) for a in e.query(db, Term("ask", None))]
            except Exception as ex:      # noqa
                out["violations"].append(("subquery2:negated-goal:exception:" + classify_exception(ex).split(":", 1)[1],
                                          "subquery(%s, P) raised %s" % (g2, classify_exception(ex))))
                continue
            if len(got) != 1 or abs(got[0] - (1.0 - base[1][goal])) > 1e-7:
                out["violations"].append(("subquery2:negated-goal", "subquery(%s,P): %s, top level gives P(%s) = %s"
                                          % (g2, got, goal, base[1][goal])))
    # negative evidence on all instances of a unary predicate at once: subquery(G, P, [\+ pred(_)])
    if ev and qs and len(ev[0][1][1]) == 1:
        pred = ev[0][1][0]
        cond_ng = _eval(progs.render(rest + qs) + "evidence(\\+%s(_)).\n" % pred)
        q = qs[0]
        goal = progs.atom_str(q[1]).replace("_", "X")
        wrapper = progs.render(rest) + "ask(G,P) :- G = %s, subquery(G, P, [\\+%s(_)]).\n" % (goal, pred)
        try:
            e = DefaultEngine()
            db = e.prepare(PrologString(wrapper))
            got = ("ok", dict((str(r[0]), float(r[1])) for r in e.query(db, Term("ask", None, None))))
        except Exception as ex:      # noqa
            got = ("exc", classify_exception(ex))
        if cond_ng[0] == "ok" and got[0] == "ok":
            exp = dict((k, v2) for k, v2 in cond_ng[1].items() if _instance_of(k, q[1]))
            for k in set(exp) | set(got[1]):
                if abs(exp.get(k, 0.0) - got[1].get(k, 0.0)) > 1e-7:
                    out["violations"].append(("subquery3:non-ground-negative-evidence", "subquery(%s,P,[\\+%s(_)]): %s, top level "
                                              "with evidence(\\+%s(_)): %s" % (goal, pred, sorted(got[1].items()), pred,
                                                                               sorted(exp.items()))))
                    break
        elif cond_ng[0] == "ok" and got[0] == "exc":
            out["violations"].append(("subquery3:non-ground-negative-evidence:exception:" + got[1].split(":", 1)[1],
                                      "subquery/3 raised %s, top level answers" % got[1]))
    if ev and qs:
        cond = _eval(progs.render(rest + qs + ev[:1]))
        a, v = ev[0][1], ev[0][2]
        evterm = progs.atom_str(a) if v else "\\+" + progs.atom_str(a)
        q = qs[0]
        goal = progs.atom_str(q[1]).replace("_", "X")
        wrapper = progs.render(rest) + "ask(G,P) :- G = %s, subquery(G, P, [%s]).\n" % (goal, evterm)
        try:
            e = DefaultEngine()
            db = e.prepare(PrologString(wrapper))
            res = e.query(db, Term("ask", None, None))
            got = ("ok", dict((str(r[0]), float(r[1])) for r in res))
        except Exception as ex:      # noqa
            got = ("exc", classify_exception(ex))
        if cond[0] == "ok":
            exp = dict((k, v2) for k, v2 in cond[1].items() if _instance_of(k, q[1]))
            if got[0] != "ok":
                out["violations"].append(("subquery3:exception:" + got[1].split(":", 1)[1], "subquery/3 raised %s, top level gives %s" % (got[1], sorted(exp.items()))))
            else:
                for k in set(exp) | set(got[1]):
                    if abs(exp.get(k, 0.0) - got[1].get(k, 0.0)) > 1e-7:
                        out["violations"].append(("subquery3:value", "subquery(%s,P,[%s]): %s, top level conditional: %s"
                                                  % (goal, evterm, sorted(got[1].items()), sorted(exp.items()))))
                        break
        elif got[0] == "ok" and got[1] and "InconsistentEvidence" in cond[1]:
            out["violations"].append(("subquery3:inconsistent-evidence-answered", "subquery/3 answered %s for zero-probability evidence" % sorted(got[1].items())))
        # both forms in ONE program, in both orders: an earlier subquery (its evidence, its grounding) must not leak into
        # a later one; every query of the program is asked unconditionally next to the conditional call
        if cond[0] == "ok" and got[0] == "ok":
            for order in ("3-then-2", "2-then-3"):
                for q2 in qs:
                    goal2 = progs.atom_str(q2[1]).replace("_", "Y")
                    c3 = "G = %s, subquery(G, P3, [%s])" % (goal, evterm)
                    c2 = "H = %s, subquery(H, P2)" % goal2
                    wrapper = progs.render(rest) + "ask(G,P3,H,P2) :- %s.\n" % (", ".join([c3, c2] if order == "3-then-2" else [c2, c3]))
                    try:
                        e = DefaultEngine()
                        db = e.prepare(PrologString(wrapper))
                        res = e.query(db, Term("ask", None, None, None, None))
                        rows = [(str(r[0]), float(r[1]), str(r[2]), float(r[3])) for r in res]
                    except Exception as ex:      # noqa
                        out["violations"].append(("subquery-sequence:exception:" + classify_exception(ex).split(":", 1)[1],
                                                  "%s raised %s" % (order, classify_exception(ex))))
                        continue
                    exp3 = dict((k, v2) for k, v2 in cond[1].items() if _instance_of(k, q[1]))
                    exp2 = dict((k, v2) for k, v2 in base[1].items() if _instance_of(k, q2[1]))
                    bad = [r for r in rows if abs(exp3.get(r[0], 0.0) - r[1]) > 1e-7 or abs(exp2.get(r[2], 0.0) - r[3]) > 1e-7]
                    if bad:
                        out["violations"].append(("subquery-sequence:value", "%s in one clause (%s / %s): rows %s; top level gives "
                                                  "conditional %s and unconditional %s" % (order, c3, c2, bad[:3], sorted(exp3.items()),
                                                                                           sorted(exp2.items()))))
                        break
    return out


def check_c29(prog):
    """Queries on an extension of P's prepared database plus added clauses = preparing P + clauses from scratch;
    queries on P's own database are unchanged by the extension."""
    from problog.program import PrologString
    from problog.engine import DefaultEngine
    from problog.formula import LogicFormula
    from problog.logic import Term
    from problog import get_evaluatable
    rng = random.Random(len(progs.render(prog)))
    stmts = [s for s in prog if s[0] in ("fact", "ad", "rule")]
    qs = [s for s in prog if s[0] == "query"]
    ev = [s for s in prog if s[0] == "evidence"]
    if len(stmts) < 4:
        return dict(skip=True)
    k = rng.randint(2, len(stmts) - 1)
    idx = list(range(len(stmts)))
    added_idx = sorted(rng.sample(idx[2:], min(len(idx) - 2, len(stmts) - k)))     # keep d(a). d(b). in the base
    base_stmts = [s for i, s in enumerate(stmts) if i not in added_idx]
    added = [stmts[i] for i in added_idx]
    full_src = progs.render(base_stmts + added + qs + ev)
    out = dict(src="%% base:\n%s%% added to the extension:\n%s%s" % (progs.render(base_stmts), progs.render(added), progs.render(qs + ev)),
               violations=[], nontrivial=False)
    ref = _eval(full_src)
    base_only = _eval(progs.render(base_stmts + qs + ev))
    got_mid = got_iter = None
    try:
        eng = DefaultEngine()
        parent = eng.prepare(PrologString(progs.render(base_stmts)))
        queries = [Term.from_string(progs.atom_str(q[1]).replace("_", "X")) for q in qs]
        evid = [(Term.from_string(progs.atom_str(e[1])), Term("true" if e[2] else "false")) for e in ev]

        def run(db, eng=eng):
            try:
                gp = eng.ground_all(db, queries=queries, evidence=evid)
                r = get_evaluatable().create_from(gp).evaluate()
                return "ok", dict((str(a), float(b)) for a, b in r.items())
            except Exception as ex:      # noqa
                return "exc", classify_exception(ex)
        # the added clauses go into one extension, or into a chain of extensions (child, grandchild, ...); in a third of the
        # cases the extension is queried half-way (histories: query, add, query again)
        mode = rng.randrange(3)
        levels = 1 if mode == 0 else rng.randint(1, 3)
        cuts = sorted(rng.sample(range(1, len(added)), min(levels - 1, len(added) - 1))) if len(added) > 1 else []
        chunks = [added[a:b] for a, b in zip([0] + cuts, cuts + [len(added)])]
        out["src"] = "%% extension levels: %s; queried half-way: %s\n" % ([len(c) for c in chunks], mode == 2) + out["src"]
        child = parent
        done = []
        for ci, chunk in enumerate(chunks):
            child = child.extend()
            half = len(chunk) // 2 if mode == 2 else None
            for si, st in enumerate(chunk):
                if si == half:
                    mid = (run(child, eng), _eval(progs.render(base_stmts + done + qs + ev)))
                    if mid[0][0] != "ok":
                        eng = DefaultEngine()
                    if got_mid is None or same_result(_norm(got_mid[1]), _norm(got_mid[0])):
                        got_mid = mid
                for cl in PrologString(progs.render([st])):
                    child += cl
                done.append(st)
        got_child = run(child, eng)
        # C29 is about the databases: an engine object whose run ended in an exception is left with a half-unwound
        # stack (e.g. IndirectCallCycleError on its next query), so after a failed child run the parent database is
        # queried through a fresh engine; after a successful one through the same engine (interleaved queries)
        got_parent = run(parent, eng) if got_child[0] == "ok" else run(parent, DefaultEngine())
        # two sibling extensions of the parent that both load a library and define a rule on it: what one extension
        # loaded must not count as loaded for the other
        if rng.random() < 0.3:
            lib = ":- use_module(library(lists)).\nlm(X) :- member(X, [a,b]).\n"
            from problog.logic import Term as _T
            sib = []
            for _ in range(2):
                try:
                    e2 = DefaultEngine()
                    c2 = parent.extend()
                    for cl in PrologString(lib):
                        c2 += cl
                    c2 = e2.prepare(c2)         # (processes the directive that was added)
                    sib.append(sorted(str(a[0]) for a in e2.query(c2, _T("lm", None))))
                except Exception as ex:      # noqa
                    sib.append(classify_exception(ex))
            if sib[0] != sib[1] or sib[0] != ["a", "b"]:
                out["violations"].append(("sibling-extensions", "two extensions of one database that both load library(lists) "
                                          "and define lm/1 on member/2 answer %s and %s, expected ['a', 'b'] twice" % (sib[0], sib[1])))
        # the clauses the extension enumerates (ClauseDB.__iter__), evaluated as a program of their own
        if ref[0] == "ok":
            try:
                from problog.program import SimpleProgram
                sp = SimpleProgram()
                for cl in child:
                    sp += cl
                e2 = DefaultEngine()
                gp = e2.ground_all(e2.prepare(sp), queries=queries, evidence=evid)
                got_iter = ("ok", dict((str(a), float(b)) for a, b in get_evaluatable().create_from(gp).evaluate().items()))
            except Exception as ex:      # noqa
                got_iter = ("exc", classify_exception(ex))
    except Exception as ex:      # noqa
        out["violations"].append(("extend:exception:" + classify_exception(ex).split(":", 1)[1], classify_exception(ex)))
        return out
    if got_mid is not None and not same_result(_norm(got_mid[1]), _norm(got_mid[0])):
        out["violations"].append(("extension-vs-union:half-way", "half-way the extension gives %s, preparing the union of what was "
                                  "added so far gives %s" % (_short(got_mid[0]), _short(got_mid[1]))))
    if got_iter is not None and not same_result(_norm(ref), _norm(got_iter)):
        out["violations"].append(("extension-enumeration", "the clauses enumerated by the extension evaluate to %s, the union gives %s"
                                  % (_short(got_iter), _short(ref))))
    out["nontrivial"] = ref[0] == "ok" and any(0.0 < v < 1.0 for v in ref[1].values())
    if not same_result(_norm(ref), _norm(got_child)):
        out["violations"].append(("extension-vs-union", "extension gives %s, preparing the union gives %s" % (_short(got_child), _short(ref))))
    if not same_result(_norm(base_only), _norm(got_parent)):
        out["violations"].append(("parent-changed", "parent database gives %s after the extension, %s on its own" % (_short(got_parent), _short(base_only))))
    return out


RESERVED_NAME_CASES = [
    "0.2::e. 0.5::c. 0.5::d.\nchoice(1) :- e.\nchoice(1) :- c.\nk :- choice(1), d.\nquery(k).\n",
    "0.2::e. 0.5::c. 0.5::d.\nbody_x :- e.\nbody_x :- c.\nk :- d, body_x.\nquery(k).\n",
    "0.2::e. 0.5::c.\nbody_1(a) :- e.\nbody_1(a) :- c.\nquery(body_1(a)).\n",
    "0.2::e. 0.5::c. 0.5::d.\nnode_3 :- e, c.\nk :- node_3, d.\nk :- (e, d), c.\nquery(k).\n",
]

CHECKS = {"C25": "check_c25", "C26": "check_c26", "C29": "check_c29"}
DESCR = {"C25": "to_prolog() text of the ground program (cyclic and cycle-broken) re-parsed and re-evaluated; DIMACS text "
                "re-read and compared clause by clause with the internal CNF",
         "C26": "a deterministic wrapper `ask(G,P) :- G = Goal, subquery(G,P[,Evidence])` queried with the plain engine vs "
                "top-level (conditional) inference",
         "C29": "the program split at random into a base and added clauses; parent.extend() (one extension or a chain of up to 3 "
                "nested ones) + added clauses vs preparing the union; in a third of the cases the extension is also queried "
                "half-way and compared with the union of what was added so far; the parent queried after the extension vs the "
                "base alone; the clauses enumerated by iterating the extension evaluated as a program vs the union"}


def run(pid, tier, seed):
    n = 4000 if tier == "thorough" else (1300 if pid == "C25" else 600)
    ps = progs.programs(seed * 32452843 + int(pid[1:]), n, max_choices=9, evidence=(pid != "C23"),
                        max_body=3 if pid == "C25" else 2)
    col = Collector("%s:metamorphic" % pid, "%d seeded programs of the bounded family; %s; distinct = program texts; non-trivial "
                    "= a reference probability strictly between 0 and 1" % (n, DESCR[pid]))
    if pid == "C25":
        ps = list(ps) + RESERVED_NAME_CASES
    for r in pmap("bounded.c25." + CHECKS[pid], ps):
        if r.get("skip"):
            continue
        col.case(r["src"], nontrivial=r["nontrivial"])
        for name, text in r["violations"]:
            col.violation("bounded:%s:%s" % (pid.lower(), name), "%s\nprogram:\n%s" % (text, r["src"]), dict(program=r["src"]))
    return [col.result()]
