"""C11 bounded stand-in: run-time contract on the ground-program builder.

Random and bounded-exhaustive sequences of builder calls (add_atom, add_and, add_or readonly/mutable,
add_disjunct, negate, add_name) over a few atoms with the builder options; after every call every key
returned so far must denote the Boolean function of the atoms that the call sequence describes (checked by
truth tables against an independent symbolic model; mutable disjunctions are kept acyclic).
"""
import itertools
import random

from bounded.pipeline import pmap
from bounded.util import Collector, classify_exception

NATOMS = 3
OPTION_SETS = [dict(), dict(keep_order=True), dict(keep_duplicates=True), dict(keep_all=True),
               dict(avoid_name_clash=True), dict(max_arity=2), dict(auto_compact=False),
               dict(keep_order=True, keep_all=True), dict(avoid_name_clash=True, keep_duplicates=True, max_arity=2), dict(max_arity=3)]


def gen_sequence(rng, length):
    """A call sequence as data.  Values are referred to by index into the list of results so far
    (negative index = negated), 'T'/'F' are the constants."""
    seq = [("atom", i) for i in range(NATOMS)]
    nvals = NATOMS
    mutable = []
    mchildren = {}
    for _ in range(length):
        def ref():
            r = rng.random()
            if r < 0.06:
                return "T"
            if r < 0.12:
                return "F"
            i = rng.randrange(nvals)
            return (i, rng.random() < 0.3)
        k = rng.random()
        if k < 0.08:
            # a single-child read-only disjunction under one of two names (the same name for different children: the
            # builder keeps a name alias per node, never per name)
            seq.append(("or", [ref()], True, "m%d" % rng.randrange(2)))
        elif k < 0.35:
            seq.append(("and", [ref() for _ in range(rng.randint(1, 3))], rng.random() < 0.3))
        elif k < 0.65:
            if mutable and rng.random() < 0.3:
                # a read-only disjunction with exactly the children a mutable node has at this moment (the hash-consing
                # tables must never hand out the mutable node for it: it can still grow)
                kids = list(mchildren[rng.choice(mutable)])
                rng.shuffle(kids) if rng.random() < 0.3 else None
                seq.append(("or", kids, True, False))
            else:
                seq.append(("or", [ref() for _ in range(rng.randint(1, 3))], True, rng.random() < 0.3))
        elif k < 0.8:
            # (also created over-full w.r.t. max_arity, which the engine never does but the interface allows)
            kids = [ref() for _ in range(rng.randint(1, 4))]
            seq.append(("or", kids, False, False))
            mutable.append(nvals)
            mchildren[nvals] = list(kids)
        elif k < 0.95 and mutable:
            m = rng.choice(mutable)
            c = ref()
            # keep the formula acyclic: only components created before the mutable node
            if isinstance(c, tuple) and c[0] >= m:
                c = (rng.randrange(m), c[1])
            seq.append(("disjunct", m, c))
            mchildren[m].append(c)
        else:
            seq.append(("not", ref()))
        nvals += 1
    return seq


def run_sequence(payload):
    seq, opts = payload
    from problog.formula import LogicFormula
    from problog.logic import Term
    from bounded.c09 import stratified_values
    out = dict(case=repr((seq, sorted(opts.items()))), violations=[], nontrivial=False)
    try:
        f = LogicFormula(**opts)
    except Exception as e:      # noqa
        out["violations"].append(("exception", "LogicFormula(%s) raised %s" % (opts, classify_exception(e))))
        return out
    keys = []          # returned keys
    model = []         # symbolic meaning: ('atom', i) | ('and', [refs]) | ('or', [refs]) | ('not', ref) | ('const', b)
    atom_keys = {}

    def key_of(r):
        if r == "T":
            return f.TRUE
        if r == "F":
            return f.FALSE
        k = keys[r[0]]
        return f.negate(k) if r[1] else k

    def meaning(r, assign, depth=0):
        if r == "T":
            return True
        if r == "F":
            return False
        v = eval_model(r[0], assign, depth)
        return (not v) if r[1] else v

    def eval_model(i, assign, depth=0):
        m = model[i]
        if m[0] == "atom":
            return assign[m[1]]
        if m[0] == "and":
            return all(meaning(r, assign, depth + 1) for r in m[1])
        if m[0] == "or":
            return any(meaning(r, assign, depth + 1) for r in m[1])
        if m[0] == "not":
            return not meaning(m[1], assign, depth + 1)
        return m[1]
    for step, op in enumerate(seq):
        try:
            if op[0] == "atom":
                k = f.add_atom(op[1], 0.5, name=Term("a%d" % op[1]))
                atom_keys[op[1]] = k
                model.append(("atom", op[1]))
            elif op[0] == "and":
                k = f.add_and([key_of(r) for r in op[1]], name=Term("n%d" % (step % 4)) if op[2] else None)
                model.append(("and", list(op[1])))
            elif op[0] == "or":
                k = f.add_or([key_of(r) for r in op[1]], readonly=op[2], name=(Term(op[3]) if isinstance(op[3], str) else Term("n%d" % (step % 4))) if op[3] else None)
                model.append(("or", list(op[1])))
            elif op[0] == "disjunct":
                target = keys[op[1]]
                if not f.is_probabilistic(target) or target < 0 or type(f.get_node(target)).__name__ != "disj":
                    k = target
                    model.append(model[op[1]])
                else:
                    ret = f.add_disjunct(target, key_of(op[2]))
                    if ret != target:
                        out["violations"].append(("add_disjunct-return", "add_disjunct(%r, %r) returned %r instead of the "
                                                  "key of the updated node" % (target, key_of(op[2]), ret)))
                        return out
                    model[op[1]] = ("or", model[op[1]][1] + [op[2]])
                    k = target
                    model.append(("or", [(op[1], False)]))
            else:
                k = f.negate(key_of(op[1]))
                model.append(("not", op[1]))
        except Exception as e:      # noqa
            out["violations"].append(("exception", "step %d %r raised %s" % (step, op, classify_exception(e))))
            return out
        keys.append(k)
        # check every key returned so far against the model, for all assignments
        for bits in itertools.product([False, True], repeat=NATOMS):
            assign = dict(enumerate(bits))
            vals = stratified_values(f, lambda i, n: assign[n.identifier])
            if vals is None:
                out["violations"].append(("cyclic", "formula became cyclic through negation at step %d" % step))
                return out
            for j, kj in enumerate(keys):
                if kj == f.TRUE:
                    got = True
                elif kj == f.FALSE:
                    got = False
                else:
                    got = vals[kj] if kj > 0 else not vals[-kj]
                exp = eval_model(j, assign)
                if got != exp:
                    out["violations"].append(("meaning", "after step %d %r: key %r returned at step %d denotes %s under %s, "
                                              "the call sequence describes %s (options %s)" % (step, op, kj, j, got, assign, exp, opts)))
                    return out
    out["nontrivial"] = any(type(n).__name__ != "atom" for _, n, _ in f)
    return out


def run(pid, tier, seed):
    rng = random.Random(seed * 97 + 11)
    n = 20000 if tier == "thorough" else 3000
    payloads = []
    for i in range(n):
        payloads.append((gen_sequence(rng, rng.randint(2, 7)), OPTION_SETS[i % len(OPTION_SETS)]))
    col = Collector("C11:builder-sequences", "%d seeded call sequences (2-7 calls after %d atoms) of add_and / add_or readonly "
                    "and mutable / add_disjunct / negate / add_name over %d atoms, cycled through %d option sets (auto_compact, "
                    "keep_order, keep_duplicates, keep_all, avoid_name_clash, max_arity); after every call every key returned "
                    "so far is compared by truth table with a symbolic model of the call sequence; distinct = (sequence, "
                    "options); non-trivial = the formula holds a compound node" % (n, NATOMS, NATOMS, len(OPTION_SETS)))
    for r in pmap("bounded.c11.run_sequence", payloads):
        col.case(r["case"], nontrivial=r["nontrivial"])
        for name, text in r["violations"]:
            col.violation("bounded:c11:" + name, text, dict(case=r["case"]))
    return [col.result()]
