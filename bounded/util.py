"""Helpers for the bounded stand-ins that go through the real engine (never counted as proved)."""
import warnings

warnings.simplefilter("ignore")


def classify_exception(e):
    """'problog' for ProbLogError subclasses (user errors), 'internal:<Class>' for anything else."""
    from problog.errors import ProbLogError
    if isinstance(e, ProbLogError):
        return "problog:" + type(e).__name__
    # internal exceptions carry the place they were raised at (file stem and function), so that a known
    # failure mode can be told apart from any other crash
    import os
    import traceback
    tb = traceback.extract_tb(e.__traceback__)
    where = ""
    if tb:
        fr = tb[-1]
        where = "@%s.%s" % (os.path.splitext(os.path.basename(fr.filename))[0], fr.name)
    return "internal:" + type(e).__name__ + where


def query(program, goal, engine=None):
    """Deterministic query on the prepared program: -> ('ok', [answer tuples as strings]) or ('exc', class)."""
    from problog.program import PrologString
    from problog.engine import DefaultEngine
    from problog.logic import Term
    try:
        e = engine or DefaultEngine()
        db = e.prepare(PrologString(program))
        g = Term.from_string(goal) if isinstance(goal, str) else goal
        res = e.query(db, g)
        return "ok", [tuple(res_i) for res_i in res]
    except Exception as ex:      # noqa
        return "exc", classify_exception(ex)


def evaluate(program, **kw):
    """Full pipeline: -> ('ok', {str(query): probability}) or ('exc', class)."""
    from problog.program import PrologString
    from problog import get_evaluatable
    try:
        r = get_evaluatable().create_from(PrologString(program), **kw).evaluate()
        return "ok", dict((str(k), v) for k, v in r.items())
    except Exception as ex:      # noqa
        return "exc", classify_exception(ex)


class Collector(object):
    """Accumulates evaluations / distinct non-trivial cases / violations for one stand-in."""

    def __init__(self, name, rule):
        self.name, self.rule = name, rule
        self.evaluations = 0
        self.cases = set()
        self.samples = []
        self.violations = []

    def case(self, key, nontrivial=True):
        self.evaluations += 1
        if nontrivial and key not in self.cases:
            self.cases.add(key)
            if len(self.samples) < 4:
                self.samples.append(key if len(str(key)) < 300 else str(key)[:300])

    def violation(self, name, text, inputs):
        # at most 3 per violation name, so that a known class never crowds out a different violation
        if sum(1 for v in self.violations if v["name"] == name) < int(__import__("os").environ.get("VIOL_CAP", "3")):
            self.violations.append(dict(name=name, text=text, inputs=inputs))

    def result(self):
        return dict(name=self.name, kind="run-time contract through the real engine (bounded stand-in)",
                    rule=self.rule, evaluations=self.evaluations, distinct_nontrivial=len(self.cases),
                    samples=self.samples, violations=self.violations)
