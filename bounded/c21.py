"""C21 bounded stand-in: run-time contract on problog.tasks.dtproblog.dtproblog (exhaustive and local search) and on
the map task, against brute-force expected utility computed from the possible-world reference bounded/pw.py.

Post-conditions (from the property text):
  exhaustive: the reported score is the expected utility of the returned strategy, and no admissible strategy has a
              larger expected utility;
  local:      the reported score is the expected utility of the returned strategy, and no single flip improves it;
  map:        the returned assignment maximises sum_q [x_q P(q) + (1-x_q)(1-P(q))] over the query facts, and the
              reported score is that sum.
Never counted as proved."""
import itertools
import os
import random
import tempfile
from fractions import Fraction

from bounded import progs, pw
from bounded.pipeline import pmap
from bounded.util import Collector, classify_exception

TOL = 1e-7


def gen(rng):
    """-> dict(base=[stmts], decisions=[atom], excl=[(d, d')], utils=[(positive?, atom, int)])"""
    if rng.random() < 0.4:
        return gen_interacting(rng)
    nd = rng.randint(1, 3)
    decisions = [("d%d" % i, ()) for i in range(nd)]
    excl = []        # decision ADs (?::a; ?::b) are not generated: the property text does not fix their meaning
    base = []
    nf = rng.randint(1, 3)
    facts = [("f%d" % i, ()) for i in range(nf)]
    for a in facts:
        base.append(("fact", rng.choice(progs.PROBS), a))
    if rng.random() < 0.3:
        ps = [Fraction(rng.randint(1, 4), 10) for _ in range(2)]
        base.append(("ad", [(ps[0], ("h0", ())), (ps[1], ("h1", ()))], []))
        facts += [("h0", ()), ("h1", ())]
    derived = [("u%d" % i, ()) for i in range(rng.randint(1, 3))]
    for i, h in enumerate(derived):
        for _ in range(rng.randint(1, 2)):
            body = []
            for _ in range(rng.randint(1, 2)):
                cands = decisions + facts + derived[:i]
                a = rng.choice(cands)
                body.append((not (rng.random() < 0.25), a))
            base.append(("rule", h, body))
    utils = []
    cands = decisions + derived + facts[:1]
    rng.shuffle(cands)
    for a in cands[:rng.randint(1, 4)]:
        r = rng.random()
        if r < 0.6:
            utils.append((True, a, rng.randint(-5, 10)))
        elif r < 0.8:
            utils.append((False, a, rng.randint(-5, 10)))
        else:       # utility on the atom and on its negation
            utils.append((True, a, rng.randint(-5, 10)))
            utils.append((False, a, rng.randint(-5, 10)))
    return dict(base=base, decisions=decisions, excl=excl, utils=utils)


def gen_interacting(rng):
    """Second profile: 3-5 decisions that interact through conjunctions (u :- d_i, d_j / u :- d_i, \\+d_j, sometimes with
    a probabilistic fact), rewards on the conjunctions and costs on the single decisions: the utility landscape has
    local optima and long improving sequences, which is what local search has to cope with."""
    nd = rng.randint(3, 5)
    decisions = [("d%d" % i, ()) for i in range(nd)]
    base = [("fact", rng.choice(progs.PROBS), ("f0", ()))]
    utils = []
    for d in decisions:
        if rng.random() < 0.8:
            utils.append((True, d, rng.randint(-6, 3)))
    for k in range(rng.randint(2, 5)):
        h = ("u%d" % k, ())
        i, j = rng.sample(range(nd), 2)
        body = [(True, decisions[i]), (rng.random() < 0.7, decisions[j])]
        if rng.random() < 0.25:
            body.append((True, ("f0", ())))
        base.append(("rule", h, body))
        utils.append((True, h, rng.randint(-4, 12)))
    return dict(base=base, decisions=decisions, excl=[], utils=utils)


def render(case):
    out = []
    done = set()
    for a, b in case["excl"]:
        out.append("?::%s; ?::%s." % (progs.atom_str(a), progs.atom_str(b)))
        done |= {a, b}
    for d in case["decisions"]:
        if d not in done:
            out.append("?::%s." % progs.atom_str(d))
    out += [progs.stmt_str(s) for s in case["base"]]
    for pos, a, v in case["utils"]:
        out.append("utility(%s%s, %d)." % ("" if pos else "\\+", progs.atom_str(a), v))
    return "\n".join(out) + "\n"


def expected_utility(case, strategy):
    """strategy: dict decision atom -> 0/1; exact rational."""
    prog = [("rule", d, []) for d in case["decisions"] if strategy[d]] + list(case["base"])
    atoms = sorted(set(a for _, a, _ in case["utils"]))
    prog += [("query", a) for a in atoms]
    sem = pw.semantics(prog)
    if sem["status"] != "ok" or sem["undefined"] or sem["probs"] is None:
        return None
    eu = Fraction(0)
    for pos, a, v in case["utils"]:
        p = sem["probs"][a]
        eu += v * (p if pos else 1 - p)
    return eu


def literal_value(case, strategy, name):
    """Value (0/1) of the literal called `name` ('a' or '\\+a') under the strategy, None if not deterministic."""
    neg = name.startswith("\\+")
    an = name[2:] if neg else name
    prog = [("rule", d, []) for d in case["decisions"] if strategy[d]] + list(case["base"]) + [("query", (an, ()))]
    sem = pw.semantics(prog)
    if sem["status"] != "ok" or sem["probs"] is None:
        return None
    p = sem["probs"][(an, ())]
    if p not in (0, 1):
        return None
    return int(p) ^ int(neg)


def admissible(case, s):
    return all(not (s[a] and s[b]) for a, b in case["excl"])


def check_dt(seed):
    from problog.program import PrologString
    from problog.tasks.dtproblog import dtproblog
    import logging
    logging.getLogger("dtproblog").setLevel(logging.ERROR)
    rng = random.Random(seed)
    case = gen(rng)
    src = render(case)
    out = dict(src=src, violations=[], nontrivial=False, skip=False)
    decs = case["decisions"]
    strategies = [dict(zip(decs, bits)) for bits in itertools.product([0, 1], repeat=len(decs))]
    eus = {}
    for s in strategies:
        eu = expected_utility(case, s)
        if eu is None:
            out["skip"] = True
            return out
        eus[tuple(s[d] for d in decs)] = eu
    adm = [s for s in strategies if admissible(case, s)]
    best = max(eus[tuple(s[d] for d in decs)] for s in adm)
    out["nontrivial"] = len(set(eus.values())) > 1
    both = set(a for pos, a, _ in case["utils"] if pos) & set(a for pos, a, _ in case["utils"] if not pos)
    out["both_signs"] = bool(both)
    for mode in ("exhaustive", "local"):
        try:
            choices, score, stats = dtproblog(PrologString(src), search=mode)
        except Exception as e:      # noqa
            cls = classify_exception(e)
            if mode == "local" and case["excl"] and cls.startswith("problog:"):
                continue            # documented: local search does not support constraints
            out["violations"].append(("%s:exception" % mode, "dtproblog(search=%s) raised %s" % (mode, cls)))
            continue
        got = dict((str(k), int(v)) for k, v in choices.items())
        # the returned dictionary is read as a set of literal values; the strategies it describes are those under
        # which every listed literal has the listed (deterministic) value.  A decision that is irrelevant may be
        # missing, and a decision may be named by an equivalent literal (e.g. \+u0 for u0 :- \+d0).
        cons = [s for s in adm if all(literal_value(case, s, k) == v for k, v in got.items())]
        if not cons:
            out["violations"].append(("%s:strategy" % mode, "no admissible strategy gives the returned literals %s their "
                                      "values" % got))
            continue
        vals = set(eus[tuple(s[d] for d in decs)] for s in cons)
        if len(vals) > 1:
            out["violations"].append(("%s:strategy" % mode, "the returned dictionary %s does not determine the expected "
                                      "utility (%s)" % (got, sorted(float(v) for v in vals))))
            continue
        s = cons[0]
        key = tuple(s[d] for d in decs)
        if abs(float(eus[key]) - float(score)) > TOL:
            out["violations"].append(("%s:score" % mode, "reported score %r but the expected utility of the returned "
                                      "strategy %s is %s" % (score, got, float(eus[key]))))
        if mode == "exhaustive":
            if float(best) - float(eus[key]) > TOL:
                out["violations"].append(("exhaustive:not-optimal", "returned strategy %s has expected utility %s, the "
                                          "optimum over admissible strategies is %s" % (got, float(eus[key]), float(best))))
        else:
            for i, d in enumerate(decs):
                k2 = list(key)
                k2[i] = 1 - k2[i]
                if float(eus[tuple(k2)]) - float(eus[key]) > TOL:
                    out["violations"].append(("local:flip-improves", "flipping %s improves the returned strategy %s from "
                                              "%s to %s" % (d[0], got, float(eus[key]), float(eus[tuple(k2)]))))
                    break
    return out


def check_map(seed):
    """MAP over query facts: assignment x maximising sum_q x_q P(q|e) + (1-x_q)(1-P(q|e)); score is that sum."""
    from problog.tasks import map as maptask
    rng = random.Random(seed)
    nf = rng.randint(1, 4)
    facts = [("f%d" % i, ()) for i in range(nf)]
    prog = [("fact", rng.choice(progs.PROBS), a) for a in facts]
    derived = [("u%d" % i, ()) for i in range(rng.randint(0, 2))]
    for i, h in enumerate(derived):
        for _ in range(rng.randint(1, 2)):
            body = [(not (rng.random() < 0.25), rng.choice(facts + derived[:i])) for _ in range(rng.randint(1, 2))]
            prog.append(("rule", h, body))
    qs = rng.sample(facts, rng.randint(1, nf))
    prog += [("query", q) for q in qs]
    has_evidence = False
    if derived and rng.random() < 0.6:
        prog.append(("evidence", rng.choice(derived), rng.random() < 0.6))
        has_evidence = True
    src = progs.render(prog)
    out = dict(src=src, violations=[], nontrivial=False, skip=False)
    sem = pw.semantics(prog)
    if sem["status"] != "ok" or sem["undefined"] or sem["probs"] is None:
        out["skip"] = True
        return out
    probs = dict((progs.atom_str(q), float(p)) for q, p in sem["probs"].items())
    if any(abs(p - 0.5) < 1e-6 for p in probs.values()):
        out["skip"] = True          # ties: any assignment of that fact is optimal
        return out
    out["nontrivial"] = any(0 < p < 1 for p in probs.values())
    for mode in ("exhaustive", "local"):
        fd, path = tempfile.mkstemp(suffix=".pl")
        os.write(fd, src.encode())
        os.close(fd)
        res = []
        try:
            maptask.main([path] + (["-s", "local"] if mode == "local" else []), result_handler=lambda r, o: res.append(r))
        except SystemExit:
            pass
        finally:
            os.unlink(path)
        if not res:
            out["violations"].append(("map:%s:no-result" % mode, "map task returned nothing"))
            continue
        ok, payload = res[0]
        if not ok:
            if mode == "local" and has_evidence and classify_exception(payload) == "problog:ProbLogError" \
                    and "does not support constraints" in str(payload):
                continue        # stated limitation of local search: evidence that fixes a query fact is a constraint
            out["violations"].append(("map:%s:exception" % mode, "map task failed with %s" % classify_exception(payload)))
            continue
        choices, score, stats = payload
        got = dict((str(k), int(v)) for k, v in choices.items())
        if set(got) != set(probs):
            out["violations"].append(("map:%s:assignment" % mode, "assignment %s does not cover exactly the query facts %s"
                                      % (got, sorted(probs))))
            continue
        val = sum(p if got[q] else 1 - p for q, p in probs.items())
        opt = sum(max(p, 1 - p) for p in probs.values())
        if abs(val - float(score)) > TOL:
            out["violations"].append(("map:%s:score" % mode, "reported score %r, the objective of the returned assignment %s "
                                      "is %s" % (score, got, val)))
        if opt - val > TOL:
            out["violations"].append(("map:%s:not-optimal" % mode, "assignment %s has objective %s, optimum %s"
                                      % (got, val, opt)))
    return out


AD_MAP_CASES = [
    # (program text, {query: marginal}, complete?) - heads of one annotated disjunction as MAP queries; an assignment
    # is feasible when at most one head is true (exactly one when all heads are queried and their probabilities sum to 1)
    ("0.1::a; 0.1::b; 0.8::c.\nquery(a).\nquery(b).\n", {"a": 0.1, "b": 0.1}, False),
    ("0.1::a; 0.2::b.\nquery(a).\nquery(b).\n", {"a": 0.1, "b": 0.2}, False),
    ("0.3::a; 0.7::b.\nquery(a).\nquery(b).\n", {"a": 0.3, "b": 0.7}, True),
    ("0.6::a; 0.3::b; 0.1::c.\nquery(a).\nquery(b).\nquery(c).\n", {"a": 0.6, "b": 0.3, "c": 0.1}, True),
]


def check_map_ad(i):
    """The map task on the heads of an annotated disjunction (fixed cases: the generated family queries independent
    facts only)."""
    from problog.tasks import map as maptask
    src, probs, complete = AD_MAP_CASES[i]
    out = dict(src=src, violations=[], nontrivial=True, skip=False)
    names = sorted(probs)
    best = None
    for bits in itertools.product([0, 1], repeat=len(names)):
        if sum(bits) > 1 or (complete and sum(bits) != 1):
            continue
        v = sum(probs[q] if b else 1 - probs[q] for q, b in zip(names, bits))
        best = v if best is None else max(best, v)
    fd, path = tempfile.mkstemp(suffix=".pl")
    os.write(fd, src.encode())
    os.close(fd)
    res = []
    try:
        maptask.main([path], result_handler=lambda r, o: res.append(r))
    except SystemExit:
        pass
    finally:
        os.unlink(path)
    if not res or not res[0][0]:
        out["violations"].append(("map:annotated-disjunction:no-result", "map task failed: %s" % (res[0][1] if res else None)))
        return out
    choices, score, stats = res[0][1]
    got = dict((str(k), int(v)) for k, v in choices.items())
    val = sum(probs[q] if got.get(q) else 1 - probs[q] for q in names)
    kind = "all-heads-queried" if complete else "some-heads-not-queried"
    if sum(got.get(q, 0) for q in names) > 1:
        out["violations"].append(("map:annotated-disjunction:%s:infeasible" % kind, "assignment %s makes two heads true" % got))
    elif best - val > TOL:
        out["violations"].append(("map:annotated-disjunction:%s:not-optimal" % kind, "assignment %s has objective %s, the best "
                                  "feasible one %s" % (got, val, best)))
    return out


def run(pid, tier, seed):
    n = 6000 if tier == "thorough" else 900
    col = Collector("C21:dtproblog-vs-brute-force",
                    "%d seeded decision-theoretic programs (1-3 decisions ?::d, optionally two of them in one decision AD, "
                    "1-3 probabilistic facts, <= 1 AD, 1-3 derived atoms with 1-2 clauses of 1-2 possibly negated literals, "
                    "1-5 integer utilities on atoms and negated atoms); dtproblog(search=exhaustive|local) against the "
                    "expected utility of every strategy computed from possible-world enumeration (exact rationals); "
                    "non-trivial = strategies differ in expected utility" % n)
    res = pmap("bounded.c21.check_dt", [seed * 100003 + i for i in range(n)])
    for r in res:
        if r["skip"]:
            continue
        col.case(r["src"], nontrivial=r["nontrivial"])
        for name, text in r["violations"]:
            vname = "bounded:c21:%s" % name
            col.violation(vname, "%s on program:\n%s" % (text, r["src"]), dict(program=r["src"]))
    m = 600 if tier == "thorough" else 100
    col2 = Collector("C21:map-vs-brute-force",
                     "%d seeded programs (1-4 probabilistic facts, some of them queried, 0-2 derived atoms, optional evidence "
                     "on a derived atom); the map task (exhaustive and local) against arg max of sum_q x_q P(q|e) + "
                     "(1-x_q)(1-P(q|e)) with P from possible-world enumeration; ties at 0.5 skipped; plus %d fixed programs that query "
                     "heads of an annotated disjunction" % (m, len(AD_MAP_CASES)))
    res = pmap("bounded.c21.check_map", [seed * 100019 + i for i in range(m)])
    res = list(res) + [check_map_ad(i) for i in range(len(AD_MAP_CASES))]
    for r in res:
        if r["skip"]:
            continue
        col2.case(r["src"], nontrivial=r["nontrivial"])
        for name, text in r["violations"]:
            col2.violation("bounded:c21:%s" % name, "%s on program:\n%s" % (text, r["src"]), dict(program=r["src"]))
    return [col.result(), col2.result()]
