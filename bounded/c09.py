"""C09 / C10 bounded stand-ins: translation validation of every transformation instance.

C09: cycle breaking (LogicFormula -> LogicDAG) and Clark's completion (LogicDAG -> CNF) on the ground programs
     of the bounded family, validated exhaustively over all atom assignments.
C10: the d-DNNF returned by the bundled dsharp for each of those CNFs: decomposable, deterministic, smooth,
     model-equivalent to the CNF, labels/weights/constraints carried over.
"""
import itertools

from bounded import progs
from bounded.pipeline import pmap
from bounded.util import Collector, classify_exception

MAX_ATOMS = 12


def node_values(formula, atom_value):
    """Least-model value of every node of a (possibly cyclic) formula given atom_value(node) -> bool."""
    nodes = [(i, n, t) for i, n, t in formula]
    val = {}
    for i, n, t in nodes:
        val[i] = atom_value(i, n) if t == "atom" else False

    def lit(c):
        if c == 0:
            return True
        if c is None:
            return False
        return val[c] if c > 0 else not val[-c]
    changed = True
    while changed:
        changed = False
        for i, n, t in nodes:
            if t == "atom":
                continue
            v = all(lit(c) for c in n.children) if t == "conj" else any(lit(c) for c in n.children)
            if v and not val[i]:
                # monotone in the positive atoms of cycles; negative literals refer to acyclic parts only
                val[i] = True
                changed = True
            elif not v and val[i]:
                val[i] = False
                changed = True
    return val


def stratified_values(formula, atom_value):
    """Value of every node: least fixpoint w.r.t. positive cycles, evaluated bottom-up through negation
    (the ground programs of the stratified family have no cycle through negation)."""
    nodes = [(i, n, t) for i, n, t in formula]
    val = dict((i, atom_value(i, n) if t == "atom" else None) for i, n, t in nodes)
    # iterate: a node is decided once all its negative dependencies are decided; positive cycles get False
    for _ in range(len(nodes) + 2):
        # least fixpoint over undecided nodes, treating undecided negative literals as blocking
        cur = dict((i, (v if v is not None else False)) for i, v in val.items())
        changed = True
        while changed:
            changed = False
            for i, n, t in nodes:
                if t == "atom" or val[i] is not None:
                    continue

                def lit(c):
                    if c == 0:
                        return True
                    if c is None:
                        return False
                    if c > 0:
                        return cur[c]
                    return (not val[-c]) if val[-c] is not None else False
                v = all(lit(c) for c in n.children) if t == "conj" else any(lit(c) for c in n.children)
                if v and not cur[i]:
                    cur[i] = True
                    changed = True
        # decide every node all of whose negative dependencies (transitively) are decided
        undec = set(i for i, v in val.items() if v is None)

        def blocked(i, seen):
            if i in seen:
                return False
            seen.add(i)
            n = formula.get_node(i)
            for c in getattr(n, "children", ()):
                if c in (0, None):
                    continue
                if c < 0 and -c in undec:
                    return True
                if c > 0 and c in undec and blocked(c, seen):
                    return True
            return False
        progressed = False
        for i in sorted(undec):
            if not blocked(i, set()):
                val[i] = cur[i]
                progressed = True
        if not undec:
            break
        if not progressed:
            return None
    return val


def atoms_of(formula):
    return [(i, n) for i, n, t in formula if t == "atom"]


def check_c09(prog):
    """Every ground program the engine produces for the program: with the defaults of create_from and, when the
    program has evidence, with propagate_evidence=True (the default of the command line), where cycle breaking
    treats query nodes and evidence nodes in two separate passes."""
    out = _check_c09(prog, {})
    if not out["skip"] and not out["violations"] and any(s[0] == "evidence" for s in prog):
        out2 = _check_c09(prog, dict(propagate_evidence=True))
        if not out2["skip"]:
            out["violations"] = [(n, "[propagate_evidence=True] " + t) for n, t in out2["violations"]]
            out["nontrivial"] = out["nontrivial"] or out2["nontrivial"]
    return out


def _check_c09(prog, ground_kwargs):
    from problog.program import PrologString
    from problog.formula import LogicFormula, LogicDAG
    from problog.cnf_formula import CNF
    src = progs.render(prog)
    out = dict(src=src, violations=[], nontrivial=False, skip=False)
    try:
        lf = LogicFormula.create_from(PrologString(src), **ground_kwargs)
    except Exception:      # noqa  (grounding errors are the subject of C01/C02)
        out["skip"] = True
        return out
    try:
        dag = LogicDAG.create_from(lf)
        cnf = CNF.create_from(dag)
    except Exception as e:      # noqa
        out["violations"].append(("exception", "transformation raised %s" % classify_exception(e)))
        return out
    src_atoms = atoms_of(lf)
    if len(src_atoms) > MAX_ATOMS:
        out["skip"] = True
        return out
    dag_atoms = atoms_of(dag)
    dag_by_ident = dict((repr(n.identifier), i) for i, n in dag_atoms)
    names_src = dict(((str(n), l), k) for n, k, l in lf.get_names_with_label() if l != "named")
    names_dag = dict(((str(n), l), k) for n, k, l in dag.get_names_with_label() if l != "named")
    if set(names_src) != set(names_dag):
        out["violations"].append(("labels", "query/evidence labels differ: %s vs %s" % (sorted(names_src), sorted(names_dag))))
        return out
    cyclic = False
    clauses = [[int(x) for x in c[1:]] if (c[0] is False or c[0] is None or isinstance(c[0], bool)) else [int(x) for x in c]
               for c in cnf._clauses if c and c[0] != "c"]
    n_constraint = sum(1 for c in cnf._clauses if c and isinstance(c[0], bool))
    completion = clauses[:len(clauses) - n_constraint]
    nvars = cnf.atomcount
    comp_nodes = [(i, n, t) for i, n, t in dag]
    for bits in itertools.product([False, True], repeat=len(src_atoms)):
        assign = dict((repr(n.identifier), b) for (i, n), b in zip(src_atoms, bits))
        v_src = stratified_values(lf, lambda i, n: assign[repr(n.identifier)])
        if v_src is None:
            out["skip"] = True
            return out
        v_dag = node_values(dag, lambda i, n: assign.get(repr(n.identifier), False))

        def keyval(vals, k):
            if k == 0:
                return True
            if k is None:
                return False
            return vals[k] if k > 0 else not vals[-k]
        # with propagated evidence the translation of a query node assumes the evidence: only assignments under
        # which the evidence holds (in the ground program's least model) are in the scope of the comparison
        evidence_holds = (not ground_kwargs.get("propagate_evidence")
                          or all(keyval(v_src, k) for _nm, k in lf.evidence()))
        for nm, k in names_src.items():
            if not evidence_holds and not nm[1].startswith("evidence"):
                continue        # (evidence nodes themselves are translated without assuming the evidence)
            a, b = keyval(v_src, k), keyval(v_dag, names_dag[nm])
            if a != b:
                out["violations"].append(("cycle-breaking", "node %s: least-model value %s in the ground program, %s "
                                          "after cycle breaking, under atoms %s" % (nm, a, b, assign)))
                return out
        # Clark's completion: the assignment to the DAG atoms extends to exactly one model of the completion
        # clauses, and that model gives every node its value
        model = dict((i, v_dag[i]) for i, n, t in comp_nodes)
        sat = all(any((model[abs(l)] if l > 0 else not model[abs(l)]) for l in c) for c in completion)
        if not sat:
            out["violations"].append(("clark-model", "node values are not a model of the completion under %s" % assign))
            return out
        # uniqueness: every non-atom variable is forced (unit propagation along the DAG order suffices to test:
        # flipping any single compound variable must falsify a clause)
        for i, n, t in comp_nodes:
            if t == "atom":
                continue
            model[i] = not model[i]
            ok = all(any((model[abs(l)] if l > 0 else not model[abs(l)]) for l in c) for c in completion)
            model[i] = not model[i]
            if ok:
                out["violations"].append(("clark-unique", "variable %d is not determined by the atoms under %s" % (i, assign)))
                return out
    # constraints and weights carried over
    cons_dag = sorted(sorted(map(list, c.as_clauses()), key=str) for c in dag.constraints())
    cons_cnf = sorted(sorted(map(list, c.as_clauses()), key=str) for c in cnf.constraints())
    if cons_dag != cons_cnf:
        out["violations"].append(("constraints", "constraints differ: %s vs %s" % (cons_dag, cons_cnf)))
    emitted = sorted(sorted(c) for c in clauses[len(completion):])
    expect = sorted(sorted(int(x) for x in cl) for c in dag.constraints() for cl in c.as_clauses())
    if emitted != expect:
        out["violations"].append(("constraint-clauses", "constraint clauses %s, expected %s" % (emitted, expect)))
    if dict(cnf.get_weights()) != dict(dag.get_weights()):
        out["violations"].append(("weights", "weights differ"))
    if cnf.clausecount != len(clauses) or nvars != len(comp_nodes):
        out["violations"].append(("counts", "clausecount/atomcount %s/%s vs %s/%s" % (cnf.clausecount, nvars, len(clauses), len(comp_nodes))))
    out["nontrivial"] = len(comp_nodes) > len(dag_atoms)
    return out


def check_c10(payload):
    """payload: a program, or (program, options).  Options: negq - every second query is asked on the negated atom
    (query(\\+a)), so that labels on negative literals occur; force - an extra TrueConstraint on one CNF variable
    (preferably the head of an annotated disjunction), as the MPE and MAP tasks add for evidence, so that circuits in
    which a constrained variable occurs only negatively or not at all occur."""
    import random
    from problog.program import PrologString
    from problog.formula import LogicFormula, LogicDAG
    from problog.cnf_formula import CNF
    from problog.ddnnf_formula import DDNNF
    from problog.constraint import TrueConstraint
    prog, opt = payload if isinstance(payload, tuple) else (payload, {})
    src = progs.render(prog)
    if opt.get("negq"):
        lines, k = [], 0
        for line in src.splitlines():
            if line.startswith("query(") and "_" not in line:
                k += 1
                if k % 2 == 1:
                    line = "query(\\+" + line[len("query("):]
            lines.append(line)
        src = "\n".join(lines) + "\n"
    out = dict(src=src + ("%% options: %s\n" % sorted(opt.items()) if opt else ""), violations=[], nontrivial=False,
               skip=False)
    try:
        cnf = CNF.create_from(LogicDAG.create_from(LogicFormula.create_from(PrologString(src))))
    except Exception:      # noqa
        out["skip"] = True
        return out
    nv = cnf.atomcount
    if nv > 14 or nv == 0:
        out["skip"] = True
        return out
    if opt.get("force"):
        rng = random.Random(len(src) * 31 + opt["force"])
        cand = sorted(set(abs(l) for c in cnf.constraints() for l in c.get_nodes() if abs(l) <= nv)) or list(range(1, nv + 1))
        v = rng.choice(cand)
        lit = v if rng.random() < 0.3 else -v
        cnf.add_constraint(TrueConstraint(lit))
        out["src"] += "%% extra constraint on the CNF: variable %d is %s\n" % (v, "true" if lit > 0 else "false")
    try:
        nnf = DDNNF.create_from(cnf)
    except Exception as e:      # noqa
        if "InconsistentEvidence" in type(e).__name__:
            out["skip"] = True
            return out
        out["violations"].append(("exception", "compilation raised %s" % classify_exception(e)))
        return out
    nodes = dict((i, (n, t)) for i, n, t in nnf)
    if not nodes:
        out["skip"] = True
        return out
    root = max(nodes)
    if nodes[root][1] == "atom":
        # a circuit that is a single literal: the formula object does not record the sign of its root
        out["skip"] = True
        return out
    var_of = dict((i, n.identifier) for i, (n, t) in nodes.items() if t == "atom")
    vars_memo = {}

    def vars_(k):
        i = abs(k)
        if i in vars_memo:
            return vars_memo[i]
        n, t = nodes[i]
        r = frozenset([n.identifier]) if t == "atom" else frozenset().union(*[vars_(c) for c in n.children])
        vars_memo[i] = r
        return r
    for i, (n, t) in nodes.items():
        if t == "conj":
            seen = set()
            for c in n.children:
                vs = vars_(c)
                if seen & vs:
                    out["violations"].append(("decomposable", "AND node %d: children share variables %s" % (i, sorted(seen & vs))))
                    return out
                seen |= vs
        elif t == "disj":
            vss = [vars_(c) for c in n.children]
            if any(v != vss[0] for v in vss):
                out["violations"].append(("smooth", "OR node %d: children mention different variables" % i))
                return out
    clauses = [[int(x) for x in (c[1:] if isinstance(c[0], bool) or c[0] is None else c)] for c in cnf._clauses
               if c and c[0] != "c"]
    allvars = list(range(1, nv + 1))
    mentioned = vars_(root)
    cnf_models = nnf_models = 0
    models = []
    for bits in itertools.product([False, True], repeat=nv):
        a = dict(zip(allvars, bits))
        val = {}

        def ev(k):
            i = abs(k)
            if i not in val:
                n, t = nodes[i]
                if t == "atom":
                    val[i] = a[n.identifier]
                elif t == "conj":
                    val[i] = all(ev(c) for c in n.children)
                else:
                    vs = [ev(c) for c in n.children]
                    if sum(1 for v in vs if v) > 1:
                        raise ValueError("OR node %d: two children true under %s" % (i, a))
                    val[i] = any(vs)
            return val[i] if k > 0 else not val[i]
        try:
            r = ev(root)
        except ValueError as e:
            out["violations"].append(("deterministic", str(e)))
            return out
        c = all(any((a[abs(l)] if l > 0 else not a[abs(l)]) for l in cl) for cl in clauses)
        if r != c:
            out["violations"].append(("equivalence", "assignment %s: CNF %s, d-DNNF %s" % (a, c, r)))
            return out
        cnf_models += c
        if c:
            models.append(a)
    # labels point to the same literals; weights carried over
    lab_c = dict(((str(n), l), k) for n, k, l in cnf.get_names_with_label() if l != "named")
    lab_n = dict(((str(n), l), k) for n, k, l in nnf.get_names_with_label() if l != "named")
    for nm, k in lab_c.items():
        k2 = lab_n.get(nm, "missing")
        if k in (0, None) or k2 in (0, None, "missing"):
            if k != k2:
                # the compiler may replace a literal that has the same value in every model by TRUE/FALSE
                vals = set((m[abs(k)] if k > 0 else not m[abs(k)]) for m in models) if k not in (0, None) else None
                if not (vals is not None and ((k2 is None and vals <= {False}) or (k2 == 0 and vals <= {True}))):
                    out["violations"].append(("labels", "%s: CNF key %s, d-DNNF key %s" % (nm, k, k2)))
            continue
        lit_c = k
        n2, t2 = nodes[abs(k2)]
        lit_n = n2.identifier if k2 > 0 else -n2.identifier
        if t2 != "atom" or lit_c != lit_n:
            out["violations"].append(("labels", "%s: CNF literal %s, d-DNNF literal %s" % (nm, lit_c, lit_n)))
    # constraints carried over: every constraint of the circuit, read through the variable each of its nodes stands for,
    # is a constraint of the CNF (a node that is not an atom of the circuit is kept as it is: it then refers to a CNF
    # variable that does not occur in the circuit)
    def lit_var(l):
        n_t = nodes.get(abs(l))
        if n_t is not None and n_t[1] == "atom":
            return n_t[0].identifier if l > 0 else -n_t[0].identifier
        return ("not-an-atom-of-the-circuit", l)
    absent = set(range(1, nv + 1)) - set(mentioned)
    cons_c = sorted(sorted(sorted(map(int, cl)) for cl in c.as_clauses()) for c in cnf.constraints())
    cons_n = []
    for c in nnf.constraints():
        cls_ = []
        for cl in c.as_clauses():
            lits = []
            for l in cl:
                lv = lit_var(int(l))
                if isinstance(lv, tuple):
                    # allowed only for a variable that is absent from the circuit and keeps its CNF index
                    lv = int(l) if abs(int(l)) in absent and abs(int(l)) not in nodes else lv
                lits.append(lv)
            cls_.append(sorted(lits, key=str))
        cons_n.append(sorted(cls_, key=str))
    if sorted(cons_n, key=str) != sorted([sorted([sorted(cl, key=str) for cl in c], key=str) for c in cons_c], key=str):
        out["violations"].append(("constraints", "constraints of the circuit %s differ from those of the CNF %s (in CNF "
                                  "variables)" % (sorted(cons_n, key=str), cons_c)))
    wc = cnf.get_weights()
    for i, (n, t) in nodes.items():
        if t == "atom" and n.identifier in wc and wc[n.identifier] != n.probability:
            out["violations"].append(("weights", "variable %s: weight %s vs %s" % (n.identifier, wc[n.identifier], n.probability)))
    out["nontrivial"] = cnf_models > 1
    return out


def run(pid, tier, seed):
    n = 8000 if tier == "thorough" else 1200
    ps = progs.programs(seed * 15485863 + int(pid[1:]), n, max_choices=8, evidence=True)
    if pid == "C09":
        # cycle breaking is what this property is about: as many programs again from the interlocking-cycles profile
        import random
        rng = random.Random(seed * 32452843 + 9)
        ps = ps + [progs.cycle_program(rng, evidence=True) for _ in range(n)]
        col = Collector("C09:translation-validation",
                        "%d seeded programs of the bounded family (stratified, incl. positive cycles) plus as many of its "
                        "interlocking-cycles profile, grounded with the defaults and (with evidence) with "
                        "propagate_evidence=True; for each ground "
                        "program every assignment to its atoms (<= %d atoms, exhaustive): least-model node values before "
                        "vs after cycle breaking; the completion has exactly one model extending the assignment and it "
                        "carries the node values; constraints/weights/counts carried over; distinct = program texts; "
                        "non-trivial = the DAG has compound nodes" % (n, MAX_ATOMS))
        fn = "bounded.c09.check_c09"
    else:
        col = Collector("C10:ddnnf-validation",
                        "%d seeded programs; each CNF (<= 14 variables) compiled with the bundled dsharp; node-by-node "
                        "decomposability, smoothness; determinism and model equivalence by exhaustive enumeration; labels "
                        "and weights carried over; distinct = program texts; non-trivial = more than one model. A third of the "
                        "programs with every second query negated (labels on negative literals), a third with one extra "
                        "TrueConstraint on a CNF variable (as MPE/MAP add for evidence), facts with probability 0.0/1.0 "
                        "included (variables that are absent from the circuit); constraints compared in CNF variables" % n)
        fn = "bounded.c09.check_c10"
        ps = progs.programs(seed * 15485863 + int(pid[1:]), n, max_choices=8, evidence=True, extreme=True)
        ps = [(p, [{}, dict(negq=True), dict(force=1 + i)][i % 3]) for i, p in enumerate(ps)]
    for r in pmap(fn, ps):
        if r.get("skip"):
            continue
        col.case(r["src"], nontrivial=r["nontrivial"])
        for name, text in r["violations"]:
            col.violation("bounded:%s:%s" % (pid.lower(), name), "%s on program:\n%s" % (text, r["src"]), dict(program=r["src"]))
    return [col.result()]
