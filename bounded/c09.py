"""C09 / C10 bounded stand-ins: translation validation of every transformation instance.

C09: cycle breaking (LogicFormula -> LogicDAG) and Clark's completion (LogicDAG -> CNF) on the ground programs
     of the bounded family, validated exhaustively over all atom assignments.
C10: the d-DNNF returned by the bundled dsharp for each of those CNFs: decomposable, deterministic, smooth,
     model-equivalent to the CNF, labels/weights/constraints carried over.
"""
import itertools

from bounded import progs
from bounded.pipeline import pmap
from bounded.util import Collector, classify_exception

MAX_ATOMS = 12


def node_values(formula, atom_value):
    """Least-model value of every node of a (possibly cyclic) formula given atom_value(node) -> bool."""
    nodes = [(i, n, t) for i, n, t in formula]
    val = {}
    for i, n, t in nodes:
        val[i] = atom_value(i, n) if t == "atom" else False

    def lit(c):
        if c == 0:
            return True
        if c is None:
            return False
        return val[c] if c > 0 else not val[-c]
    changed = True
    while changed:
        changed = False
        for i, n, t in nodes:
            if t == "atom":
                continue
            v = all(lit(c) for c in n.children) if t == "conj" else any(lit(c) for c in n.children)
            if v and not val[i]:
                # monotone in the positive atoms of cycles; negative literals refer to acyclic parts only
                val[i] = True
                changed = True
            elif not v and val[i]:
                val[i] = False
                changed = True
    return val


def stratified_values(formula, atom_value):
    """Value of every node: least fixpoint w.r.t. positive cycles, evaluated bottom-up through negation
    (the ground programs of the stratified family have no cycle through negation)."""
    nodes = [(i, n, t) for i, n, t in formula]
    val = dict((i, atom_value(i, n) if t == "atom" else None) for i, n, t in nodes)
    # iterate: a node is decided once all its negative dependencies are decided; positive cycles get False
    for _ in range(len(nodes) + 2):
        # least fixpoint over undecided nodes, treating undecided negative literals as blocking
        cur = dict((i, (v if v is not None else False)) for i, v in val.items())
        changed = True
        while changed:
            changed = False
            for i, n, t in nodes:
                if t == "atom" or val[i] is not None:
                    continue

                def lit(c):
                    if c == 0:
                        return True
                    if c is None:
                        return False
                    if c > 0:
                        return cur[c]
                    return (not val[-c]) if val[-c] is not None else False
                v = all(lit(c) for c in n.children) if t == "conj" else any(lit(c) for c in n.children)
                if v and not cur[i]:
                    cur[i] = True
                    changed = True
        # decide every node all of whose negative dependencies (transitively) are decided
        undec = set(i for i, v in val.items() if v is None)

        def blocked(i, seen):
            if i in seen:
                return False
            seen.add(i)
            n = formula.get_node(i)
            for c in getattr(n, "children", ()):
                if c in (0, None):
                    continue
                if c < 0 and -c in undec:
                    return True
                if c > 0 and c in undec and blocked(c, seen):
                    return True
            return False
        progressed = False
        for i in sorted(undec):
            if not blocked(i, set()):
                val[i] = cur[i]
                progressed = True
        if not undec:
            break
        if not progressed:
            return None
    return val


def atoms_of(formula):
    return [(i, n) for i, n, t in formula if t == "atom"]


def check_c09(prog):
    """Every ground program the engine produces for the program: with the defaults of create_from and, when the
    program has evidence, with propagate_evidence=True (the default of the command line), where cycle breaking
    treats query nodes and evidence nodes in two separate passes."""
    out = _check_c09(prog, {})
    if not out["skip"] and not out["violations"] and any(s[0] == "evidence" for s in prog):
        out2 = _check_c09(prog, dict(propagate_evidence=True))
        if not out2["skip"]:
            out["violations"] = [(n, "[propagate_evidence=True] " + t) for n, t in out2["violations"]]
            out["nontrivial"] = out["nontrivial"] or out2["nontrivial"]
    return out


def _check_c09(prog, ground_kwargs):
    from problog.program import PrologString
    from problog.formula import LogicFormula, LogicDAG
    from problog.cnf_formula import CNF
    src = progs.render(prog)
    out = dict(src=src, violations=[], nontrivial=False, skip=False)
    try:
        lf = LogicFormula.create_from(PrologString(src), **ground_kwargs)
    except Exception:      # noqa  (grounding errors are the subject of C01/C02)
        out["skip"] = True
        return out
    try:
        dag = LogicDAG.create_from(lf)
        cnf = CNF.create_from(dag)
    except Exception as e:      # noqa
        out["violations"].append(("exception", "transformation raised %s" % classify_exception(e)))
        return out
    src_atoms = atoms_of(lf)
    if len(src_atoms) > MAX_ATOMS:
        out["skip"] = True
        return out
    dag_atoms = atoms_of(dag)
    dag_by_ident = dict((repr(n.identifier), i) for i, n in dag_atoms)
    names_src = dict(((str(n), l), k) for n, k, l in lf.get_names_with_label() if l != "named")
    names_dag = dict(((str(n), l), k) for n, k, l in dag.get_names_with_label() if l != "named")
    if set(names_src) != set(names_dag):
        out["violations"].append(("labels", "query/evidence labels differ: %s vs %s" % (sorted(names_src), sorted(names_dag))))
        return out
    cyclic = False
    clauses = [[int(x) for x in c[1:]] if (c[0] is False or c[0] is None or isinstance(c[0], bool)) else [int(x) for x in c]
               for c in cnf._clauses if c and c[0] != "c"]
    n_constraint = sum(1 for c in cnf._clauses if c and isinstance(c[0], bool))
    completion = clauses[:len(clauses) - n_constraint]
    nvars = cnf.atomcount
    comp_nodes = [(i, n, t) for i, n, t in dag]
    for bits in itertools.product([False, True], repeat=len(src_atoms)):
        assign = dict((repr(n.identifier), b) for (i, n), b in zip(src_atoms, bits))
        v_src = stratified_values(lf, lambda i, n: assign[repr(n.identifier)])
        if v_src is None:
            out["skip"] = True
            return out
        v_dag = node_values(dag, lambda i, n: assign.get(repr(n.identifier), False))

        def keyval(vals, k):
            if k == 0:
                return True
            if k is None:
                return False
            return vals[k] if k > 0 else not vals[-k]
        # with propagated evidence the translation of a query node assumes the evidence: only assignments under
        # which the evidence holds (in the ground program's least model) are in the scope of the comparison
        evidence_holds = (not ground_kwargs.get("propagate_evidence")
                          or all(keyval(v_src, k) for _nm, k in lf.evidence()))
        for nm, k in names_src.items():
            if not evidence_holds and not nm[1].startswith("evidence"):
                continue        # (evidence nodes themselves are translated without assuming the evidence)
            a, b = keyval(v_src, k), keyval(v_dag, names_dag[nm])
            if a != b:
                out["violations"].append(("cycle-breaking", "node %s: least-model value %s in the ground program, %s "
                                          "after cycle breaking, under atoms %s" % (nm, a, b, assign)))
                return out
        # Clark's completion: the assignment to the DAG atoms extends to exactly one model of the completion
        # clauses, and that model gives every node its value
        model = dict((i, v_dag[i]) for i, n, t in comp_nodes)
        sat = all(any((model[abs(l)] if l > 0 else not model[abs(l)]) for l in c) for c in completion)
        if not sat:
            out["violations"].append(("clark-model", "node values are not a model of the completion under %s" % assign))
            return out
        # uniqueness: every non-atom variable is forced (unit propagation along the DAG order suffices to test:
        # flipping any single compound variable must falsify a clause)
        for i, n, t in comp_nodes:
            if t == "atom":
                continue
            model[i] = not model[i]
            ok = all(any((model[abs(l)] if l > 0 else not model[abs(l)]) for l in c) for c in completion)
            model[i] = not model[i]
            if ok:
                out["violations"].append(("clark-unique", "variable %d is not determined by the atoms under %s" % (i, assign)))
                return out
    # constraints and weights carried over
    cons_dag = sorted(sorted(map(list, c.as_clauses()), key=str) for c in dag.constraints())
    cons_cnf = sorted(sorted(map(list, c.as_clauses()), key=str) for c in cnf.constraints())
    if cons_dag != cons_cnf:
        out["violations"].append(("constraints", "constraints differ: %s vs %s" % (cons_dag, cons_cnf)))
    emitted = sorted(sorted(c) for c in clauses[len(completion):])
    expect = sorted(sorted(int(x) for x in cl) for c in dag.constraints() for cl in c.as_clauses())
    if emitted != expect:
        out["violations"].append(("constraint-clauses", "constraint clauses %s, expected %s" % (emitted, expect)))
    if dict(cnf.get_weights()) != dict(dag.get_weights()):
        out["violations"].append(("weights", "weights differ"))
    if cnf.clausecount != len(clauses) or nvars != len(comp_nodes):
        out["violations"].append(("counts", "clausecount/atomcount %s/%s vs %s/%s" % (cnf.clausecount, nvars, len(clauses), len(comp_nodes))))
    out["nontrivial"] = len(comp_nodes) > len(dag_atoms)
    return out


def check_c10(payload):
    """payload: a program, or (program, options).  Options: negq - every second query is asked on the negated atom
    (query(\\+a)), so that labels on negative literals occur; force - an extra TrueConstraint on one CNF variable
    (preferably the head of an annotated disjunction), as the MPE and MAP tasks add for evidence, so that circuits in
    which a constrained variable occurs only negatively or not at all occur."""
    import random
    from problog.program import PrologString
    from problog.formula import LogicFormula, LogicDAG
    from problog.cnf_formula import CNF
    from problog.ddnnf_formula import DDNNF
    from problog.constraint import TrueConstraint
    prog, opt = payload if isinstance(payload, tuple) else (payload, {})
    src = progs.render(prog)
    if opt.get("negq"):
        lines, k = [], 0
        for line in src.splitlines():
            if line.startswith("query(") and "_" not in line:
                k += 1
                if k % 2 == 1:
                    line = "query(\\+" + line[len("query("):]
            lines.append(line)
        src = "\n".join(lines) + "\n"
    out = dict(src=src + ("%% options: %s\n" % sorted(opt.items()) if opt else ""), violations=[], nontrivial=False,
               skip=False)
    try:
        cnf = CNF.create_from(LogicDAG.create_from(LogicFormula.create_from(PrologString(src))))
    except Exception:      # noqa
        out["skip"] = True
        return out
    nv = cnf.atomcount
    if nv > 14 or nv == 0:
        out["skip"] = True
        return out
    if opt.get("force"):
        rng = random.Random(len(src) * 31 + opt["force"])
        cand = sorted(set(abs(l) for c in cnf.constraints() for l in c.get_nodes() if abs(l) <= nv)) or list(range(1, nv + 1))
        v = rng.choice(cand)
        lit = v if rng.random() < 0.3 else -v
        if opt["force"] % 2 == 0 and nv >= 2:
            # a clause constraint over two literals (negative literals must keep their sign when the constraint is carried
            # over to the circuit)
            from problog.constraint import ClauseConstraint
            v2 = rng.choice([x for x in range(1, nv + 1) if x != v])
            lit2 = v2 if rng.random() < 0.5 else -v2
            cnf.add_constraint(ClauseConstraint([lit, lit2]))
            out["src"] += "%% extra constraint on the CNF: clause [%d, %d]\n" % (lit, lit2)
        else:
            cnf.add_constraint(TrueConstraint(lit))
            out["src"] += "%% extra constraint on the CNF: variable %d is %s\n" % (v, "true" if lit > 0 else "false")
    if not opt:
        # the same CNF compiled with other compiler options first, in the same process (nothing of that compilation may
        # be handed out for the default one)
        try:
            DDNNF.create_from(cnf, smooth=False)
            out["src"] += "% compiled once with smooth=False before the default compilation\n"
        except Exception:      # noqa
            pass
    try:
        nnf = DDNNF.create_from(cnf)
    except Exception as e:      # noqa
        if "InconsistentEvidence" in type(e).__name__:
            out["skip"] = True
            return out
        out["violations"].append(("exception", "compilation raised %s" % classify_exception(e)))
        return out
    nodes = dict((i, (n, t)) for i, n, t in nnf)
    if not nodes:
        out["skip"] = True
        return out
    root = max(nodes)
    var_of = dict((i, n.identifier) for i, (n, t) in nodes.items() if t == "atom")
    vars_memo = {}

    def vars_(k):
        i = abs(k)
        if i in vars_memo:
            return vars_memo[i]
        n, t = nodes[i]
        r = frozenset([n.identifier]) if t == "atom" else frozenset().union(*[vars_(c) for c in n.children])
        vars_memo[i] = r
        return r
    for i, (n, t) in nodes.items():
        if t == "conj":
            seen = set()
            for c in n.children:
                vs = vars_(c)
                if seen & vs:
                    out["violations"].append(("decomposable", "AND node %d: children share variables %s" % (i, sorted(seen & vs))))
                    return out
                seen |= vs
        elif t == "disj":
            vss = [vars_(c) for c in n.children]
            if any(v != vss[0] for v in vss):
                out["violations"].append(("smooth", "OR node %d: children mention different variables" % i))
                return out
    clauses = [[int(x) for x in (c[1:] if isinstance(c[0], bool) or c[0] is None else c)] for c in cnf._clauses
               if c and c[0] != "c"]
    allvars = list(range(1, nv + 1))
    mentioned = vars_(root)
    cnf_models = nnf_models = 0
    models = []
    for bits in itertools.product([False, True], repeat=nv):
        a = dict(zip(allvars, bits))
        val = {}

        def ev(k):
            i = abs(k)
            if i not in val:
                n, t = nodes[i]
                if t == "atom":
                    val[i] = a[n.identifier]
                elif t == "conj":
                    val[i] = all(ev(c) for c in n.children)
                else:
                    vs = [ev(c) for c in n.children]
                    if sum(1 for v in vs if v) > 1:
                        raise ValueError("OR node %d: two children true under %s" % (i, a))
                    val[i] = any(vs)
            return val[i] if k > 0 else not val[i]
        try:
            r = ev(root)
        except ValueError as e:
            out["violations"].append(("deterministic", str(e)))
            return out
        c = all(any((a[abs(l)] if l > 0 else not a[abs(l)]) for l in cl) for cl in clauses)
        if r != c:
            out["violations"].append(("equivalence", "assignment %s: CNF %s, d-DNNF %s" % (a, c, r)))
            return out
        cnf_models += c
        if c:
            models.append(a)
    # labels point to the same literals; weights carried over
    lab_c = dict(((str(n), l), k) for n, k, l in cnf.get_names_with_label() if l != "named")
    lab_n = dict(((str(n), l), k) for n, k, l in nnf.get_names_with_label() if l != "named")
    for nm, k in lab_c.items():
        k2 = lab_n.get(nm, "missing")
        if k in (0, None) or k2 in (0, None, "missing"):
            if k != k2:
                # the compiler may replace a literal that has the same value in every model by TRUE/FALSE
                vals = set((m[abs(k)] if k > 0 else not m[abs(k)]) for m in models) if k not in (0, None) else None
                if not (vals is not None and ((k2 is None and vals <= {False}) or (k2 == 0 and vals <= {True}))):
                    out["violations"].append(("labels", "%s: CNF key %s, d-DNNF key %s" % (nm, k, k2)))
            continue
        lit_c = k
        n2, t2 = nodes[abs(k2)]
        lit_n = n2.identifier if k2 > 0 else -n2.identifier
        if t2 != "atom" or lit_c != lit_n:
            out["violations"].append(("labels", "%s: CNF literal %s, d-DNNF literal %s" % (nm, lit_c, lit_n)))
    # constraints carried over: every constraint of the circuit, read through the variable each of its nodes stands for,
    # is a constraint of the CNF (a node that is not an atom of the circuit is kept as it is: it then refers to a CNF
    # variable that does not occur in the circuit)
    def lit_var(l):
        n_t = nodes.get(abs(l))
        if n_t is not None and n_t[1] == "atom":
            return n_t[0].identifier if l > 0 else -n_t[0].identifier
        return ("not-an-atom-of-the-circuit", l)
    absent = set(range(1, nv + 1)) - set(mentioned)
    cons_c = sorted(sorted(sorted(map(int, cl)) for cl in c.as_clauses()) for c in cnf.constraints())
    cons_n = []
    for c in nnf.constraints():
        cls_ = []
        for cl in c.as_clauses():
            lits = []
            for l in cl:
                lv = lit_var(int(l))
                if isinstance(lv, tuple):
                    # allowed only for a variable that is absent from the circuit and keeps its CNF index
                    lv = int(l) if abs(int(l)) in absent and abs(int(l)) not in nodes else lv
                lits.append(lv)
            cls_.append(sorted(lits, key=str))
        cons_n.append(sorted(cls_, key=str))
    if sorted(cons_n, key=str) != sorted([sorted([sorted(cl, key=str) for cl in c], key=str) for c in cons_c], key=str):
        out["violations"].append(("constraints", "constraints of the circuit %s differ from those of the CNF %s (in CNF "
                                  "variables)" % (sorted(cons_n, key=str), cons_c)))
    wc = cnf.get_weights()
    for i, (n, t) in nodes.items():
        if t == "atom" and n.identifier in wc and wc[n.identifier] != n.probability:
            out["violations"].append(("weights", "variable %s: weight %s vs %s" % (n.identifier, wc[n.identifier], n.probability)))
    out["nontrivial"] = cnf_models > 1
    return out


def check_c10_api(seed):
    """A ground program built through the LogicDAG interface (plain Python numbers and Constants as weights, 0.0 and 1.0
    included; conjunctions/disjunctions over literals; 0-2 TrueConstraints on literals or compound nodes, which may
    contradict each other) -> CNF -> d-DNNF.  The circuit evaluated with the probability semiring must give, for every
    query, the weighted model count of the CNF computed by enumeration (with the weights of the CNF); an unsatisfiable
    CNF, or one without a model of positive weight, must be reported as inconsistent."""
    import random
    from problog.logic import Term, Constant
    from problog.formula import LogicDAG
    from problog.cnf_formula import CNF
    from problog.ddnnf_formula import DDNNF
    from problog.constraint import TrueConstraint
    from problog.evaluator import SemiringProbability
    rng = random.Random(seed)
    lf = LogicDAG()
    descr = []
    atoms = []
    for i in range(rng.randint(1, 4)):
        w = rng.choice([0.0, 1.0, 0.3, 0.5, 0.25, Constant(0.0), Constant(0.4), Constant(1.0), 0, 1])
        atoms.append(lf.add_atom("a%d" % i, w))
        descr.append("a%d = add_atom('a%d', %r)" % (i, i, w))
    nodes = list(atoms)
    for j in range(rng.choice([0, 0, 1, 2, 3])):
        kids = [rng.choice(nodes) * rng.choice([1, 1, -1]) for _ in range(rng.randint(2, 3))]
        if len(set(abs(k) for k in kids)) < len(kids):
            continue
        op = rng.choice(["and", "or"])
        k = lf.add_and(kids) if op == "and" else lf.add_or(kids)
        if k in (0, None):
            continue
        descr.append("n%d = add_%s(%s)" % (k, op, kids))
        nodes.append(k)
    qs = []
    for k in rng.sample(nodes, rng.randint(1, len(nodes))):
        lit = k if rng.random() < 0.8 else -k
        name = "q%s%d" % ("n" if lit < 0 else "", abs(k))
        lf.add_query(Term(name), lit)
        qs.append(name)
        descr.append("add_query(%s, %d)" % (name, lit))
    for _ in range(rng.choice([0, 0, 1, 1, 2])):
        lit = rng.choice(nodes) * rng.choice([1, -1])
        lf.add_constraint(TrueConstraint(lit))
        descr.append("add_constraint(TrueConstraint(%d))" % lit)
    src = "LogicDAG built by: " + "; ".join(descr)
    out = dict(src=src, violations=[], nontrivial=False, skip=False)
    force_atoms = rng.random() < 0.2
    if force_atoms:
        out["src"] += "; CNF.create_from(dag, force_atoms=True) (as the MPE task does)"
    try:
        cnf = CNF.create_from(lf, force_atoms=True) if force_atoms else CNF.create_from(lf)
    except Exception as e:      # noqa
        out["skip"] = True
        return out
    nv = cnf.atomcount
    clauses = [[int(x) for x in (c[1:] if isinstance(c[0], bool) or c[0] is None else c)] for c in cnf._clauses
               if c and c[0] != "c"]
    wc = cnf.get_weights()

    def wt(v, val):
        w = wc.get(v)
        if w is None or w is True:
            return 1.0
        if isinstance(w, tuple):
            return float(w[0] if val else w[1])
        return float(w) if val else 1.0 - float(w)
    z = 0.0
    num = dict((str(n), 0.0) for n, k in cnf.queries())
    qk = [(str(n), k) for n, k in cnf.queries()]
    for bits in itertools.product([False, True], repeat=nv):
        a = dict(zip(range(1, nv + 1), bits))
        if not all(any((a[abs(l)] if l > 0 else not a[abs(l)]) for l in cl) for cl in clauses):
            continue
        w = 1.0
        for v in a:
            w *= wt(v, a[v])
        z += w
        for n, k in qk:
            if k == 0 or (k is not None and (a[abs(k)] if k > 0 else not a[abs(k)])):
                num[n] += w
    expected = ("inconsistent",) if z < 1e-12 else ("ok", dict((n, num[n] / z) for n in num))
    try:
        nnf = DDNNF.create_from(cnf)
        r = nnf.evaluate(semiring=SemiringProbability())
        got = ("ok", dict((str(k), float(v)) for k, v in r.items()))
    except Exception as e:      # noqa
        c = classify_exception(e)
        got = ("inconsistent",) if "InconsistentEvidence" in c else ("exc", c)
    out["nontrivial"] = expected[0] == "ok" and any(0.0 < v < 1.0 for v in expected[1].values())
    if expected[0] != got[0] or (expected[0] == "ok" and (set(expected[1]) != set(got[1]) or
                                                          any(abs(expected[1][k] - got[1][k]) > 1e-9 for k in expected[1]))):
        out["violations"].append(("api:weighted-model-count", "the circuit evaluates to %s, enumeration over the CNF (%d variables, "
                                  "clauses %s, weights %s) gives %s" % (got, nv, clauses, wc, expected)))
    return out


def run(pid, tier, seed):
    n = 8000 if tier == "thorough" else 1200
    ps = progs.programs(seed * 15485863 + int(pid[1:]), n, max_choices=8, evidence=True)
    if pid == "C09":
        # cycle breaking is what this property is about: as many programs again from the interlocking-cycles profile
        import random
        rng = random.Random(seed * 32452843 + 9)
        ps = ps + [progs.cycle_program(rng, evidence=True) for _ in range(n)]
        col = Collector("C09:translation-validation",
                        "%d seeded programs of the bounded family (stratified, incl. positive cycles) plus as many of its "
                        "interlocking-cycles profile, grounded with the defaults and (with evidence) with "
                        "propagate_evidence=True; for each ground "
                        "program every assignment to its atoms (<= %d atoms, exhaustive): least-model node values before "
                        "vs after cycle breaking; the completion has exactly one model extending the assignment and it "
                        "carries the node values; constraints/weights/counts carried over; distinct = program texts; "
                        "non-trivial = the DAG has compound nodes" % (n, MAX_ATOMS))
        fn = "bounded.c09.check_c09"
    else:
        col = Collector("C10:ddnnf-validation",
                        "%d seeded programs; each CNF (<= 14 variables) compiled with the bundled dsharp; node-by-node "
                        "decomposability, smoothness; determinism and model equivalence by exhaustive enumeration; labels "
                        "and weights carried over; distinct = program texts; non-trivial = more than one model. A third of the "
                        "programs with every second query negated (labels on negative literals), a third with one extra "
                        "TrueConstraint on a CNF variable (as MPE/MAP add for evidence), facts with probability 0.0/1.0 "
                        "included (variables that are absent from the circuit); constraints compared in CNF variables" % n)
        fn = "bounded.c09.check_c10"
        ps = progs.programs(seed * 15485863 + int(pid[1:]), n, max_choices=8, evidence=True, extreme=True)
        ps = [(p, [{}, dict(negq=True), dict(force=1 + i)][i % 3]) for i, p in enumerate(ps)]
    for r in pmap(fn, ps):
        if r.get("skip"):
            continue
        col.case(r["src"], nontrivial=r["nontrivial"])
        for name, text in r["violations"]:
            col.violation("bounded:%s:%s" % (pid.lower(), name), "%s on program:\n%s" % (text, r["src"]), dict(program=r["src"]))
    res = [col.result()]
    if pid == "C10":
        m = 20000 if tier == "thorough" else 3000
        col2 = Collector("C10:ddnnf-api-validation",
                         "%d seeded ground programs built through the LogicDAG interface (1-4 atoms with weights 0.0, 1.0, 0, 1, "
                         "0.25-0.5 as Python numbers and as Constants; 0-3 conjunctions/disjunctions over literals; queries on "
                         "positive and negative literals; 0-2 TrueConstraints that may contradict each other), CNF -> d-DNNF "
                         "(dsharp, or the clause-free shortcut); probability-semiring evaluation of the circuit vs weighted model "
                         "count of the CNF by enumeration; an unsatisfiable or zero-weight CNF must be reported inconsistent; "
                         "non-trivial = an expected probability strictly between 0 and 1" % m)
        for r in pmap("bounded.c09.check_c10_api", [seed * 86028121 + i for i in range(m)]):
            if r.get("skip"):
                continue
            col2.case(r["src"], nontrivial=r["nontrivial"])
            for name, text in r["violations"]:
                col2.violation("bounded:c10:%s" % name, "%s\n%s" % (text, r["src"]), dict(construction=r["src"]))
        res.append(col2.result())
    return res
