"""C12 bounded stand-in: SemiringSymbolic.  The laws hold modulo evaluation of the produced expression
string, which is outside SMT reach; checked exhaustively over a small operand alphabet by evaluating the
strings with Python arithmetic on a grid of variable values."""
import itertools

from bounded.util import Collector

OPERANDS = ["0", "1", "x", "y", "(x + y)", "x*y", "(1-x)", "(1-y)", "0.5"]
GRID = [(0.0, 0.0), (0.25, 0.5), (0.5, 0.25), (1.0, 0.0), (0.3, 0.3), (1.0, 1.0)]


def ev(s, x, y):
    return float(eval(s, {"__builtins__": {}}, {"x": x, "y": y}))


def same(a, b):
    return all(abs(ev(a, x, y) - ev(b, x, y)) < 1e-9 for x, y in GRID)


def ev_total(s, x, y):
    try:
        return ev(s, x, y)
    except ZeroDivisionError:
        raise
    except Exception as e:      # noqa  (a malformed expression)
        return "not evaluable: %s" % type(e).__name__


def run_closure(tier, seed):
    """The operands a real evaluation feeds back into the semiring are its own outputs: all expressions of the base
    alphabet combined once more by the semiring's own plus/times/negate, then the laws on (sampled) pairs/triples."""
    import random
    from problog.evaluator import SemiringSymbolic
    s = SemiringSymbolic()
    rng = random.Random(seed * 977 + 12)
    level1 = list(OPERANDS)
    for a, b in itertools.product(OPERANDS, repeat=2):
        for e in (s.plus(a, b), s.times(a, b)):
            if e not in level1:
                level1.append(e)
    for a in list(level1):
        e = s.negate(a)
        if e not in level1:
            level1.append(e)
    n = 60000 if tier == "thorough" else 8000
    col = Collector("C12:SemiringSymbolic-closure", "%d operands (the base alphabet closed once under the semiring's own plus, "
                    "times and negate); negate and the unit laws on every operand, the binary laws and distributivity on %d "
                    "seeded pairs/triples; every produced expression must be evaluable and is evaluated on the (x, y) grid"
                    % (len(level1), n))

    def same2(lhs, rhs):
        for x, y in GRID:
            try:
                l, r = ev_total(lhs, x, y), ev_total(rhs, x, y)
            except ZeroDivisionError:
                continue
            if isinstance(l, str) or isinstance(r, str) or abs(l - r) > 1e-9:
                return False
        return True

    def chk(name, lhs, rhs, ops):
        col.case((name,) + tuple(ops))
        if not same2(lhs, rhs):
            col.violation("bounded:symbolic:" + name, "%s fails for %s: %r vs %r" % (name, ops, lhs, rhs),
                          dict(operands=list(ops)))
    for a in level1:
        chk("negate", s.negate(a), "(1-(%s))" % a, (a,))
        chk("double-negate", s.negate(s.negate(a)), a, (a,))
        chk("plus-zero", s.plus(a, s.zero()), a, (a,))
        chk("times-one", s.times(s.one(), a), a, (a,))
    for _ in range(n):
        a, b, c = rng.choice(level1), rng.choice(level1), rng.choice(level1)
        chk("plus-comm", s.plus(a, b), s.plus(b, a), (a, b))
        chk("times-comm", s.times(a, b), s.times(b, a), (a, b))
        chk("plus-image", s.plus(a, b), "(%s)+(%s)" % (a, b), (a, b))
        chk("times-image", s.times(a, b), "(%s)*(%s)" % (a, b), (a, b))
        chk("distrib", s.times(a, s.plus(b, c)), s.plus(s.times(a, b), s.times(a, c)), (a, b, c))
        chk("negate-of-product", s.negate(s.times(a, b)), "(1-(%s)*(%s))" % (a, b), (a, b))
    return col.result()


def run_log_image(tier, seed):
    """log-probability is the logarithmic image of probability, at the level of the objects (whatever class of the
    hierarchy implements a method): plus, times, negate, normalize, value, ad_complement on a grid incl. 0 and 1."""
    import math
    from problog.evaluator import SemiringProbability, SemiringLogProbability
    P, L = SemiringProbability(), SemiringLogProbability()
    vals = [0.0, 1e-12, 1e-7, 0.1, 0.25, 0.3, 0.5, 0.75, 0.9, 1.0 - 1e-7, 1.0]
    col = Collector("C12:log-image-of-probability", "the probability grid %s: value/plus/times/negate/normalize on all values and "
                    "pairs (plus only where a+b <= 1, normalize where a <= z, z > 0), ad_complement on all lists of 0-3 grid "
                    "values with sum <= 1 (all-zero lists included); exp of the log-space answer within 1e-9 of the "
                    "probability-space answer, and an error in one space only is a deviation" % vals)

    def call(f, *a):
        try:
            return "ok", f(*a)
        except Exception as e:      # noqa
            return "exc", type(e).__name__

    def cmp(name, pr, lr, args):
        col.case((name,) + tuple(args))
        if pr[0] != lr[0]:
            col.violation("bounded:log-image:" + name, "%s%s: probability space gives %s, log space gives %s" % (name, args, pr, lr),
                          dict(args=list(args)))
        elif pr[0] == "ok":
            back = math.exp(lr[1]) if lr[1] != float("-inf") else 0.0
            if not abs(back - pr[1]) <= 1e-9:
                col.violation("bounded:log-image:" + name, "%s%s: probability space gives %r, exp of the log-space answer is %r"
                              % (name, args, pr[1], back), dict(args=list(args)))
    lv = dict((v, L.value(v)) for v in vals)
    for a in vals:
        cmp("value", call(P.value, a), call(L.value, a), (a,))
        cmp("negate", call(P.negate, P.value(a)), call(L.negate, lv[a]), (a,))
        for b in vals:
            if a + b <= 1.0:
                cmp("plus", call(P.plus, a, b), call(L.plus, lv[a], lv[b]), (a, b))
            cmp("times", call(P.times, a, b), call(L.times, lv[a], lv[b]), (a, b))
            if a <= b and b > 1e-7:
                cmp("normalize", call(P.normalize, a, b), call(L.normalize, lv[a], lv[b]), (a, b))
    for k in range(0, 4):
        for ws in itertools.product(vals, repeat=k):
            if sum(ws) <= 1.0:
                cmp("ad_complement", call(P.ad_complement, list(ws)), call(L.ad_complement, [lv[w] for w in ws]), ws)
    return col.result()


def run(tier, seed):
    return run_base(tier, seed) + [run_closure(tier, seed), run_log_image(tier, seed)]


def run_base(tier, seed):
    from problog.evaluator import SemiringSymbolic, SemiringProbability
    s, p = SemiringSymbolic(), SemiringProbability()
    col = Collector("C12:SemiringSymbolic", "all pairs/triples over the operand alphabet %s; each produced expression "
                    "is evaluated on a grid of (x, y) values; distinct = operand tuples" % OPERANDS)

    def chk(name, lhs, rhs, ops):
        col.case((name,) + tuple(ops))
        if not same(lhs, rhs):
            col.violation("bounded:symbolic:" + name, "%s fails for %s: %r vs %r" % (name, ops, lhs, rhs),
                          dict(operands=list(ops)))
    for a in OPERANDS:
        chk("plus-zero", s.plus(a, s.zero()), a, (a,))
        chk("zero-plus", s.plus(s.zero(), a), a, (a,))
        chk("times-one", s.times(a, s.one()), a, (a,))
        chk("one-times", s.times(s.one(), a), a, (a,))
        chk("times-zero", s.times(a, s.zero()), s.zero(), (a,))
        chk("negate", s.negate(a), "(1-(%s))" % a, (a,))
        chk("normalize-one", s.normalize(a, s.one()), a, (a,))
        for z in ("0.5", "0.5*0.5", "(0.25 + 0.25)", "x*y"):
            col.case(("normalize", a, z))
            for x, y in GRID:
                try:
                    zv = ev(z, x, y)
                    if zv != 0 and abs(ev(s.normalize(a, z), x, y) - ev(a, x, y) / zv) > 1e-9:
                        col.violation("bounded:symbolic:normalize", "normalize(%r, %r) = %r does not evaluate to a/z"
                                      % (a, z, s.normalize(a, z)), dict(operands=[a, z]))
                        break
                except ZeroDivisionError:
                    pass
        col.case(("value", a))
        if s.value(0.25) != "0.25":
            col.violation("bounded:symbolic:value", "value(0.25) = %r" % s.value(0.25), dict())
    for a, b in itertools.product(OPERANDS, repeat=2):
        chk("plus-comm", s.plus(a, b), s.plus(b, a), (a, b))
        chk("times-comm", s.times(a, b), s.times(b, a), (a, b))
        # the symbolic value evaluates to what the probability semiring computes
        for x, y in GRID:
            col.case(("image", a, b, x, y), nontrivial=False)
            if abs(ev(s.times(a, b), x, y) - p.times(ev(a, x, y), ev(b, x, y))) > 1e-9 or \
                    abs(ev(s.plus(a, b), x, y) - p.plus(ev(a, x, y), ev(b, x, y))) > 1e-9:
                col.violation("bounded:symbolic:image", "symbolic plus/times of %r, %r disagrees with the probability "
                              "semiring at x=%s y=%s" % (a, b, x, y), dict(operands=[a, b]))
    for a, b, c in itertools.product(OPERANDS, repeat=3):
        chk("plus-assoc", s.plus(s.plus(a, b), c), s.plus(a, s.plus(b, c)), (a, b, c))
        chk("times-assoc", s.times(s.times(a, b), c), s.times(a, s.times(b, c)), (a, b, c))
        chk("distrib", s.times(a, s.plus(b, c)), s.plus(s.times(a, b), s.times(a, c)), (a, b, c))
    if not (s.is_one(s.one()) and s.is_zero(s.zero())):
        col.violation("bounded:symbolic:defaults", "is_one(one()) / is_zero(zero()) fails", dict())
    return [col.result()]
