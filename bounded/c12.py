"""C12 bounded stand-in: SemiringSymbolic.  The laws hold modulo evaluation of the produced expression
string, which is outside SMT reach; checked exhaustively over a small operand alphabet by evaluating the
strings with Python arithmetic on a grid of variable values."""
import itertools

from bounded.util import Collector

OPERANDS = ["0", "1", "x", "y", "(x + y)", "x*y", "(1-x)", "(1-y)", "0.5"]
GRID = [(0.0, 0.0), (0.25, 0.5), (0.5, 0.25), (1.0, 0.0), (0.3, 0.3), (1.0, 1.0)]


def ev(s, x, y):
    return float(eval(s, {"__builtins__": {}}, {"x": x, "y": y}))


def same(a, b):
    return all(abs(ev(a, x, y) - ev(b, x, y)) < 1e-9 for x, y in GRID)


def run(tier, seed):
    from problog.evaluator import SemiringSymbolic, SemiringProbability
    s, p = SemiringSymbolic(), SemiringProbability()
    col = Collector("C12:SemiringSymbolic", "all pairs/triples over the operand alphabet %s; each produced expression "
                    "is evaluated on a grid of (x, y) values; distinct = operand tuples" % OPERANDS)

    def chk(name, lhs, rhs, ops):
        col.case((name,) + tuple(ops))
        if not same(lhs, rhs):
            col.violation("bounded:symbolic:" + name, "%s fails for %s: %r vs %r" % (name, ops, lhs, rhs),
                          dict(operands=list(ops)))
    for a in OPERANDS:
        chk("plus-zero", s.plus(a, s.zero()), a, (a,))
        chk("zero-plus", s.plus(s.zero(), a), a, (a,))
        chk("times-one", s.times(a, s.one()), a, (a,))
        chk("one-times", s.times(s.one(), a), a, (a,))
        chk("times-zero", s.times(a, s.zero()), s.zero(), (a,))
        chk("negate", s.negate(a), "(1-(%s))" % a, (a,))
        chk("normalize-one", s.normalize(a, s.one()), a, (a,))
        for z in ("0.5", "0.5*0.5", "(0.25 + 0.25)", "x*y"):
            col.case(("normalize", a, z))
            for x, y in GRID:
                try:
                    zv = ev(z, x, y)
                    if zv != 0 and abs(ev(s.normalize(a, z), x, y) - ev(a, x, y) / zv) > 1e-9:
                        col.violation("bounded:symbolic:normalize", "normalize(%r, %r) = %r does not evaluate to a/z"
                                      % (a, z, s.normalize(a, z)), dict(operands=[a, z]))
                        break
                except ZeroDivisionError:
                    pass
        col.case(("value", a))
        if s.value(0.25) != "0.25":
            col.violation("bounded:symbolic:value", "value(0.25) = %r" % s.value(0.25), dict())
    for a, b in itertools.product(OPERANDS, repeat=2):
        chk("plus-comm", s.plus(a, b), s.plus(b, a), (a, b))
        chk("times-comm", s.times(a, b), s.times(b, a), (a, b))
        # the symbolic value evaluates to what the probability semiring computes
        for x, y in GRID:
            col.case(("image", a, b, x, y), nontrivial=False)
            if abs(ev(s.times(a, b), x, y) - p.times(ev(a, x, y), ev(b, x, y))) > 1e-9 or \
                    abs(ev(s.plus(a, b), x, y) - p.plus(ev(a, x, y), ev(b, x, y))) > 1e-9:
                col.violation("bounded:symbolic:image", "symbolic plus/times of %r, %r disagrees with the probability "
                              "semiring at x=%s y=%s" % (a, b, x, y), dict(operands=[a, b]))
    for a, b, c in itertools.product(OPERANDS, repeat=3):
        chk("plus-assoc", s.plus(s.plus(a, b), c), s.plus(a, s.plus(b, c)), (a, b, c))
        chk("times-assoc", s.times(s.times(a, b), c), s.times(a, s.times(b, c)), (a, b, c))
        chk("distrib", s.times(a, s.plus(b, c)), s.plus(s.times(a, b), s.times(a, c)), (a, b, c))
    if not (s.is_one(s.one()) and s.is_zero(s.zero())):
        col.violation("bounded:symbolic:defaults", "is_one(one()) / is_zero(zero()) fails", dict())
    return [col.result()]
