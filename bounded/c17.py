"""C17 bounded stand-in: run-time contracts on the parser entry point and on print -> parse.

(a) totality: for every input string, iterating PrologString(text) either returns clauses or raises a subclass of
    ProbLogError (ParseError / GroundingError ...), never another exception, and terminates;
(b) round trip: for every term / clause built with the public constructors from supported syntax, parsing str(t) + "."
    yields exactly one clause that is == t.
Never counted as proved."""
import glob
import os
import random
import signal

from bounded.pipeline import pmap
from bounded.util import Collector, classify_exception

ALPHABET = list("()[]{},.;:-\\+'\"%/*|_ \n\tAaXbf019=<>~!@#$^&?`")
SNIPPETS = ["0.5::", ":-", "\\+", "query(", "evidence(", "'", '"', "/*", "*/", "%", "[", "|", "]", "(", ")", ".", ",", ";",
            "not ", "is ", "=..", "**", "//", "1e", "0x", "0'", "::", "<-", "->", "\\==", "=:=", "1.", ".5", "_", "X",
            "a.b", "'a'(", "f (", "- 1", "-(", "+(", "{", "}", "t(_)::", "?::", "P::", "\\\\", "\\n", "'\\''", "\"\\\"\""]


class _Timeout(Exception):
    pass


def _alarm(signum, frame):
    raise _Timeout()


def corpus():
    repo = os.environ.get("PYVC_REPO", "/repo")
    files = sorted(glob.glob(os.path.join(repo, "test", "*.pl")))
    out = []
    for f in files:
        try:
            t = open(f).read()
        except Exception:      # noqa
            continue
        if len(t) < 1500:
            out.append(t)
    return out


def mutate(rng, text):
    k = rng.random()
    t = list(text)
    for _ in range(rng.randint(1, 4)):
        if not t:
            t = list(rng.choice(SNIPPETS))
        i = rng.randrange(len(t))
        r = rng.random()
        if r < 0.3:
            del t[i:i + rng.randint(1, 3)]
        elif r < 0.6:
            t[i:i] = list(rng.choice(SNIPPETS) if rng.random() < 0.7 else rng.choice(ALPHABET))
        elif r < 0.8:
            t[i] = rng.choice(ALPHABET)
        else:
            j = rng.randrange(len(t))
            t[i], t[j] = t[j], t[i]
    if k < 0.15:
        t = t[:rng.randrange(len(t) + 1)]           # truncated file
    return "".join(t)


def parse_total(text):
    from problog.program import PrologString
    out = dict(text=text, violations=[], nontrivial=False)
    signal.signal(signal.SIGALRM, _alarm)
    signal.alarm(10)
    try:
        n = 0
        for cl in PrologString(text):
            n += 1
            str(cl)
        out["nontrivial"] = n > 0
    except _Timeout:
        out["violations"].append(("parse:timeout", "parsing did not finish within 10 s"))
    except RecursionError:
        pass            # depth of nesting beyond the interpreter's stack: resource limit, stated assumption
    except Exception as e:      # noqa
        c = classify_exception(e)
        if not c.startswith("problog:"):
            out["violations"].append(("parse:" + c, "parsing raised %s (%s)" % (c, str(e)[:100])))
        else:
            out["nontrivial"] = True
    finally:
        signal.alarm(0)
    return out


# ------------------------------------------------------------------ print -> parse
BINOPS = ["+", "-", "*", "/", "//", "mod", "rem", "div", "**", "^", "<<", ">>", "/\\", "\\/", "xor", "<", ">", "=<", ">=",
          "=:=", "=\\=", "=", "\\=", "==", "\\==", "@<", "@>", "@=<", "@>=", "is", "=..", "=@=", "\\=@=", "><", "#"]
UNOPS = ["-", "\\", "+"]
ATOMS = ["a", "b", "foo", "'A b'", "'hello world'", "[]", "aB_1", "'X'", "'1'", "true"]


def gen_term(rng, depth, allow_var=True):
    from problog.logic import Term, Constant, Var, Not, list2term
    r = rng.random()
    if depth <= 0 or r < 0.35:
        k = rng.random()
        if k < 0.3:
            return Term(rng.choice(ATOMS))
        if k < 0.5:
            return Constant(rng.choice([0, 1, 7, 42, -1, -13, 10 ** 12]))
        if k < 0.65:
            return Constant(rng.choice([0.5, -2.25, 1e-7, 1e20, 3.0, 0.1, 123.456]))
        if k < 0.75:
            return Constant(rng.choice(['"s"', '"with space"', '""', '"A"']))
        if allow_var:
            return Var(rng.choice(["X", "Y", "Zs", "_A", "X1"]))
        return Term("c")
    if r < 0.55:
        n = rng.randint(1, 3)
        return Term(rng.choice(["f", "g", "h", "'q r'"]), *[gen_term(rng, depth - 1, allow_var) for _ in range(n)])
    if r < 0.7:
        items = [gen_term(rng, depth - 1, allow_var) for _ in range(rng.randint(1, 3))]
        tail = Term("[]") if (rng.random() < 0.75 or not allow_var) else Var("T")
        return list2term(items) if tail == Term("[]") else _partial_list(items, tail)
    if r < 0.9:
        return Term(rng.choice(BINOPS), gen_term(rng, depth - 1, allow_var), gen_term(rng, depth - 1, allow_var))
    if r < 0.95:
        return Term(rng.choice(UNOPS), gen_term(rng, depth - 1, allow_var))
    # (the word operator `not` is generated only in front of body literals, see gen_body)
    child = gen_term(rng, depth - 1, allow_var)
    if getattr(child, "functor", None) in ("mod", "rem", "div", "xor", "is"):
        child = Term("<", *child.args)      # (negating an arithmetic word-operator term has no use)
    return Not("\\+", child)


def _partial_list(items, tail):
    from problog.logic import Term
    t = tail
    for x in reversed(items):
        t = Term(".", x, t)
    return t


def gen_callable(rng, depth):
    from problog.logic import Term
    n = rng.randint(0, 2)
    args = [gen_term(rng, depth, True) for _ in range(n)]
    if depth >= 1 and rng.random() < 0.12:
        # a goal as an argument (meta-calls such as findall(X, (p(X), (q(X) ; r(X))), L)): a conjunction, whose members may
        # be disjunctions
        from problog.logic import And
        b = gen_body(rng, 2, word_not=False)       # (inside an argument `not` is printed as not(...), an ordinary term)
        if type(b) == And:
            args.append(b)
    return Term(rng.choice(["p", "q", "r", "'my pred'"]), *args)


def gen_body(rng, depth, word_not=True):
    from problog.logic import And, Or, Not, Term
    r = rng.random()
    if depth <= 0 or r < 0.4:
        k = rng.random()
        if k < 0.7:
            return gen_callable(rng, 1)
        if k < 0.85:
            return Term(rng.choice(["<", ">", "=<", "is", "=", "\\=", "=:="]), gen_term(rng, 1), gen_term(rng, 1))
        return Not(rng.choice(["\\+", "\\+", "not"]) if word_not else "\\+", gen_callable(rng, 0))
    # conjunctions and disjunctions in the right-nested form the parser and And.from_list / Or.from_list build
    # (a left-nested And(And(a,b),c) prints as "a, b, c", which denotes the right-nested term)
    items = [gen_body(rng, depth - 1, word_not) for _ in range(rng.randint(2, 3))]
    if r < 0.8:
        items = [x for it in items for x in (_flatten(it, And))]
        return And.from_list(items)
    items = [x for it in items for x in (_flatten(it, Or))]
    return Or.from_list(items)


def _flatten(t, cls):
    if type(t) == cls:
        return _flatten(t.args[0], cls) + _flatten(t.args[1], cls)
    return [t]


def gen_clause(rng):
    from problog.logic import Clause, AnnotatedDisjunction, Constant, Term
    k = rng.random()
    if k < 0.25:
        return gen_term(rng, 3, True), "term"
    if k < 0.4:
        return gen_callable(rng, 2), "fact"
    if k < 0.55:
        p = rng.choice([Constant(0.3), Constant(1), Constant(0.25), Term("/", Constant(1), Constant(3)), Term("P")])
        return gen_callable(rng, 1).with_probability(p), "probabilistic-fact"
    if k < 0.8:
        return Clause(gen_callable(rng, 1), gen_body(rng, 2)), "rule"
    if k < 0.9:
        return Clause(gen_callable(rng, 1).with_probability(Constant(0.4)), gen_body(rng, 1)), "probabilistic-rule"
    heads = [gen_callable(rng, 1).with_probability(Constant(rng.choice([0.1, 0.2, 0.3]))) for _ in range(rng.randint(2, 3))]
    body = gen_body(rng, 1) if rng.random() < 0.6 else Term("true")
    return AnnotatedDisjunction(heads, body), "annotated-disjunction"


def feature(t):
    """Classes of known findings, decided on the printed text."""
    s = str(t)
    return s


def roundtrip(seed):
    from problog.program import PrologString
    rng = random.Random(seed)
    t, kind = gen_clause(rng)
    out = dict(text="", kind=kind, violations=[], nontrivial=True)
    signal.signal(signal.SIGALRM, _alarm)
    signal.alarm(10)
    try:
        s = str(t)
        out["text"] = s
        try:
            cls = list(PrologString(s + "."))
        except _Timeout:
            raise
        except Exception as e:      # noqa
            out["violations"].append(("roundtrip:not-parsable:" + kind, "str(t) = %r does not parse: %s %s"
                                      % (s, classify_exception(e), str(e)[:80])))
            return out
        if len(cls) != 1:
            out["violations"].append(("roundtrip:clause-count:" + kind, "%r parses into %d clauses" % (s, len(cls))))
            return out
        back = cls[0]
        if not (back == t) or type(back) != type(t) and kind not in ("term",):
            out["violations"].append(("roundtrip:not-equal:" + kind, "%r parses back as %r (%s vs %s)"
                                      % (s, str(back), type(t).__name__, type(back).__name__)))
    except _Timeout:
        out["violations"].append(("roundtrip:timeout", "print/parse did not finish within 10 s"))
    except RecursionError:
        pass
    except Exception as e:      # noqa
        out["violations"].append(("roundtrip:exception:" + classify_exception(e), "printing raised %s" % classify_exception(e)))
    finally:
        signal.alarm(0)
    return out


def run(pid, tier, seed):
    rng = random.Random(seed * 7 + 17)
    base = corpus()
    n = 200000 if tier == "thorough" else 40000
    texts = []
    for _ in range(n):
        r = rng.random()
        if r < 0.7 and base:
            texts.append(mutate(rng, rng.choice(base)))
        elif r < 0.9:
            texts.append("".join(rng.choice(SNIPPETS + ALPHABET + ["a", "p(X)", "q(a,b)", " :- ", ". "])
                                 for _ in range(rng.randint(1, 14))))
        else:
            texts.append("".join(rng.choice(ALPHABET) for _ in range(rng.randint(1, 30))))
    col = Collector("C17:parser-total", "%d strings: 70%% mutations (1-4 character/snippet edits, truncation) of the %d program "
                    "texts under test/*.pl shorter than 1500 characters, 20%% concatenations of 1-14 syntax snippets, 10%% random "
                    "strings over %d characters; iterating PrologString(text) must return or raise a ProbLogError subclass within "
                    "10 s; non-trivial = at least one clause parsed or a ProbLog error raised" % (n, len(base), len(ALPHABET)))
    for r in pmap("bounded.c17.parse_total", texts):
        col.case(r["text"], nontrivial=r["nontrivial"])
        for name, text in r["violations"]:
            col.violation("bounded:c17:" + name, "%s on input %r" % (text, r["text"]), dict(text=r["text"]))
    m = 200000 if tier == "thorough" else 40000
    col2 = Collector("C17:print-parse-roundtrip", "%d seeded terms and clauses built with the public constructors (atoms incl. "
                     "quoted, ints, floats, strings, variables, compounds, proper and partial lists, %d binary and %d unary "
                     "operators in nested positions, \\+ and not, conjunction/disjunction bodies, probabilistic facts and rules, "
                     "annotated disjunctions; depth <= 3): PrologString(str(t) + '.') must yield exactly one clause == t"
                     % (m, len(BINOPS), len(UNOPS)))
    for r in pmap("bounded.c17.roundtrip", [seed * 1000003 + i for i in range(m)]):
        col2.case(r["text"], nontrivial=r["nontrivial"])
        for name, text in r["violations"]:
            col2.violation("bounded:c17:" + name, text, dict(text=r["text"]))
    return [col.result(), col2.result()]
