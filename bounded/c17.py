"""C17 bounded stand-in: run-time contracts on the parser entry point and on print -> parse.

(a) totality: for every input string, iterating PrologString(text) either returns clauses or raises a subclass of
    ProbLogError (ParseError / GroundingError ...), never another exception, and terminates;
(b) round trip: for every term / clause built with the public constructors from supported syntax, parsing str(t) + "."
    yields exactly one clause that is == t.
Never counted as proved."""
import glob
import os
import random
import signal

from bounded.pipeline import pmap
from bounded.util import Collector, classify_exception

ALPHABET = list("()[]{},.;:-\\+'\"%/*|_ \n\tAaXbf019=<>~!@#$^&?`")
SNIPPETS = ["0.5::", ":-", "\\+", "query(", "evidence(", "'", '"', "/*", "*/", "%", "[", "|", "]", "(", ")", ".", ",", ";",
            "not ", "is ", "=..", "**", "//", "1e", "0x", "0'", "::", "<-", "->", "\\==", "=:=", "1.", ".5", "_", "X",
            "a.b", "'a'(", "f (", "- 1", "-(", "+(", "{", "}", "t(_)::", "?::", "P::", "\\\\", "\\n", "'\\''", "\"\\\"\"",
            "( )", "()", "avg<X>", "<X>", "p() ", "-[", "\\[", " :- ( ). "]


class _Timeout(Exception):
    pass


def _alarm(signum, frame):
    raise _Timeout()


def corpus():
    repo = os.environ.get("PYVC_REPO", "/repo")
    files = sorted(glob.glob(os.path.join(repo, "test", "*.pl")))
    out = []
    for f in files:
        try:
            t = open(f).read()
        except Exception:      # noqa
            continue
        if len(t) < 1500:
            out.append(t)
    return out


def mutate(rng, text):
    k = rng.random()
    t = list(text)
    for _ in range(rng.randint(1, 4)):
        if not t:
            t = list(rng.choice(SNIPPETS))
        i = rng.randrange(len(t))
        r = rng.random()
        if r < 0.3:
            del t[i:i + rng.randint(1, 3)]
        elif r < 0.6:
            t[i:i] = list(rng.choice(SNIPPETS) if rng.random() < 0.7 else rng.choice(ALPHABET))
        elif r < 0.8:
            t[i] = rng.choice(ALPHABET)
        else:
            j = rng.randrange(len(t))
            t[i], t[j] = t[j], t[i]
    if k < 0.15:
        t = t[:rng.randrange(len(t) + 1)]           # truncated file
    return "".join(t)


def parse_total(text):
    from problog.program import PrologString
    out = dict(text=text, violations=[], nontrivial=False)
    signal.signal(signal.SIGALRM, _alarm)
    signal.alarm(10)
    try:
        n = 0
        for cl in PrologString(text):
            n += 1
            str(cl)
        out["nontrivial"] = n > 0
    except _Timeout:
        out["violations"].append(("parse:timeout", "parsing did not finish within 10 s"))
    except RecursionError:
        pass            # depth of nesting beyond the interpreter's stack: resource limit, stated assumption
    except Exception as e:      # noqa
        c = classify_exception(e)
        if not c.startswith("problog:"):
            out["violations"].append(("parse:" + c, "parsing raised %s (%s)" % (c, str(e)[:100])))
        else:
            out["nontrivial"] = True
    finally:
        signal.alarm(0)
    return out


# ------------------------------------------------------------------ print -> parse
BINOPS = ["+", "-", "*", "/", "//", "mod", "rem", "div", "**", "^", "<<", ">>", "/\\", "\\/", "xor", "<", ">", "=<", ">=",
          "=:=", "=\\=", "=", "\\=", "==", "\\==", "@<", "@>", "@=<", "@>=", "is", "=..", "=@=", "\\=@=", "><", "#"]
UNOPS = ["-", "\\", "+"]
ATOMS = ["a", "b", "foo", "'A b'", "'hello world'", "[]", "aB_1", "'X'", "'1'", "true"]


def gen_term(rng, depth, allow_var=True):
    from problog.logic import Term, Constant, Var, Not, list2term
    r = rng.random()
    if depth <= 0 or r < 0.35:
        k = rng.random()
        if k < 0.3:
            return Term(rng.choice(ATOMS))
        if k < 0.5:
            return Constant(rng.choice([0, 1, 7, 42, -1, -13, 10 ** 12]))
        if k < 0.65:
            return Constant(rng.choice([0.5, -2.25, 1e-7, 1e20, 3.0, 0.1, 123.456]))
        if k < 0.75:
            return Constant(rng.choice(['"s"', '"with space"', '""', '"A"']))
        if allow_var:
            return Var(rng.choice(["X", "Y", "Zs", "_A", "X1"]))
        return Term("c")
    if r < 0.55:
        n = rng.randint(1, 3)
        return Term(rng.choice(["f", "g", "h", "'q r'"]), *[gen_term(rng, depth - 1, allow_var) for _ in range(n)])
    if r < 0.7:
        items = [gen_term(rng, depth - 1, allow_var) for _ in range(rng.randint(1, 3))]
        tail = Term("[]") if (rng.random() < 0.75 or not allow_var) else Var("T")
        return list2term(items) if tail == Term("[]") else _partial_list(items, tail)
    if r < 0.9:
        return Term(rng.choice(BINOPS), gen_term(rng, depth - 1, allow_var), gen_term(rng, depth - 1, allow_var))
    if r < 0.95:
        return Term(rng.choice(UNOPS), gen_term(rng, depth - 1, allow_var))
    # (the word operator `not` is generated only in front of body literals, see gen_body)
    child = gen_term(rng, depth - 1, allow_var)
    if getattr(child, "functor", None) in ("mod", "rem", "div", "xor", "is"):
        child = Term("<", *child.args)      # (negating an arithmetic word-operator term has no use)
    return Not("\\+", child)


def _partial_list(items, tail):
    from problog.logic import Term
    t = tail
    for x in reversed(items):
        t = Term(".", x, t)
    return t


def gen_callable(rng, depth):
    from problog.logic import Term
    n = rng.randint(0, 2)
    args = [gen_term(rng, depth, True) for _ in range(n)]
    if depth >= 1 and rng.random() < 0.12:
        # a goal as an argument (meta-calls such as findall(X, (p(X), (q(X) ; r(X))), L)): a conjunction, whose members may
        # be disjunctions
        from problog.logic import And
        b = gen_body(rng, 2, word_not=False)       # (inside an argument `not` is printed as not(...), an ordinary term)
        if type(b) == And:
            args.append(b)
    return Term(rng.choice(["p", "q", "r", "'my pred'"]), *args)


def gen_body(rng, depth, word_not=True):
    from problog.logic import And, Or, Not, Term
    r = rng.random()
    if depth <= 0 or r < 0.4:
        k = rng.random()
        if k < 0.7:
            return gen_callable(rng, 1)
        if k < 0.85:
            return Term(rng.choice(["<", ">", "=<", "is", "=", "\\=", "=:="]), gen_term(rng, 1), gen_term(rng, 1))
        return Not(rng.choice(["\\+", "\\+", "not"]) if word_not else "\\+", gen_callable(rng, 0))
    # conjunctions and disjunctions in the right-nested form the parser and And.from_list / Or.from_list build
    # (a left-nested And(And(a,b),c) prints as "a, b, c", which denotes the right-nested term)
    items = [gen_body(rng, depth - 1, word_not) for _ in range(rng.randint(2, 3))]
    if r < 0.8:
        items = [x for it in items for x in (_flatten(it, And))]
        return And.from_list(items)
    items = [x for it in items for x in (_flatten(it, Or))]
    return Or.from_list(items)


def _flatten(t, cls):
    if type(t) == cls:
        return _flatten(t.args[0], cls) + _flatten(t.args[1], cls)
    return [t]


def gen_clause(rng):
    from problog.logic import Clause, AnnotatedDisjunction, Constant, Term
    k = rng.random()
    if k < 0.25:
        return gen_term(rng, 3, True), "term"
    if k < 0.4:
        return gen_callable(rng, 2), "fact"
    if k < 0.55:
        p = rng.choice([Constant(0.3), Constant(1), Constant(0.25), Term("/", Constant(1), Constant(3)), Term("P")])
        return gen_callable(rng, 1).with_probability(p), "probabilistic-fact"
    if k < 0.8:
        return Clause(gen_callable(rng, 1), gen_body(rng, 2)), "rule"
    if k < 0.9:
        return Clause(gen_callable(rng, 1).with_probability(Constant(0.4)), gen_body(rng, 1)), "probabilistic-rule"
    heads = [gen_callable(rng, 1).with_probability(Constant(rng.choice([0.1, 0.2, 0.3]))) for _ in range(rng.randint(2, 3))]
    body = gen_body(rng, 1) if rng.random() < 0.6 else Term("true")
    return AnnotatedDisjunction(heads, body), "annotated-disjunction"


def feature(t):
    """Classes of known findings, decided on the printed text."""
    s = str(t)
    return s


def roundtrip(seed):
    from problog.program import PrologString
    rng = random.Random(seed)
    t, kind = gen_clause(rng)
    out = dict(text="", kind=kind, violations=[], nontrivial=True)
    signal.signal(signal.SIGALRM, _alarm)
    signal.alarm(10)
    try:
        s = str(t)
        out["text"] = s
        try:
            cls = list(PrologString(s + "."))
        except _Timeout:
            raise
        except Exception as e:      # noqa
            out["violations"].append(("roundtrip:not-parsable:" + kind, "str(t) = %r does not parse: %s %s"
                                      % (s, classify_exception(e), str(e)[:80])))
            return out
        if len(cls) != 1:
            out["violations"].append(("roundtrip:clause-count:" + kind, "%r parses into %d clauses" % (s, len(cls))))
            return out
        back = cls[0]
        if not (back == t) or type(back) != type(t) and kind not in ("term",) or _probabilities(back) != _probabilities(t):
            out["violations"].append(("roundtrip:not-equal:" + kind, "%r parses back as %r (%s vs %s)"
                                      % (s, str(back), type(t).__name__, type(back).__name__)))
    except _Timeout:
        out["violations"].append(("roundtrip:timeout", "print/parse did not finish within 10 s"))
    except RecursionError:
        pass
    except Exception as e:      # noqa
        out["violations"].append(("roundtrip:exception:" + classify_exception(e), "printing raised %s" % classify_exception(e)))
    finally:
        signal.alarm(0)
    return out


# ------------------------------------------------------------------ parse -> print -> parse (the infix printer)
TEXT_BINOPS = BINOPS + [":"]
TEXT_ATOMS = ["a", "b", "foo", "'A b'", "X", "Y", "_", "1", "42", "-1", "2.5", "-0.5", "1.0e10", '"s"', "[]", "'X'"]


def gen_expr_text(rng, depth):
    """A fully parenthesised argument expression (every operator application in its own parentheses)."""
    r = rng.random()
    if depth <= 0 or r < 0.3:
        return rng.choice(TEXT_ATOMS)
    if r < 0.4:
        return "%s(%s)" % (rng.choice(["f", "g", "'q r'"]), ",".join(gen_expr_text(rng, depth - 1) for _ in range(rng.randint(1, 3))))
    if r < 0.5:
        items = ",".join(gen_expr_text(rng, depth - 1) for _ in range(rng.randint(1, 3)))
        return "[%s%s]" % (items, "|T" if rng.random() < 0.2 else "")
    if r < 0.9:
        return "(%s %s %s)" % (gen_expr_text(rng, depth - 1), rng.choice(TEXT_BINOPS), gen_expr_text(rng, depth - 1))
    return "(%s (%s))" % (rng.choice(["-", "\\", "+"]), gen_expr_text(rng, depth - 1))


def gen_goal_text(rng, depth):
    r = rng.random()
    if depth <= 0 or r < 0.35:
        k = rng.random()
        if k < 0.5:
            return "%s(%s)" % (rng.choice(["p", "q"]), gen_expr_text(rng, 1))
        if k < 0.8:
            return "(%s %s %s)" % (gen_expr_text(rng, 1), rng.choice(["=", "<", "is", "\\=", "==", ">="]), gen_expr_text(rng, 2))
        return rng.choice(["a", "b", "true"])
    if r < 0.5:
        return "(%s, %s)" % (gen_goal_text(rng, depth - 1), gen_goal_text(rng, depth - 1))
    if r < 0.62:
        return "(%s ; %s)" % (gen_goal_text(rng, depth - 1), gen_goal_text(rng, depth - 1))
    if r < 0.7:
        return "(%s -> %s ; %s)" % (gen_goal_text(rng, depth - 1), gen_goal_text(rng, depth - 1), gen_goal_text(rng, depth - 1))
    if r < 0.75:
        return "(%s -> %s)" % (gen_goal_text(rng, depth - 1), gen_goal_text(rng, depth - 1))
    if r < 0.85:
        return "\\+ (%s)" % gen_goal_text(rng, depth - 1)
    if r < 0.92:
        return "findall(X, %s, L)" % gen_goal_text(rng, depth - 1)
    if r < 0.96:
        return "call(%s)" % gen_goal_text(rng, depth - 1)
    return "(X = %s)" % gen_goal_text(rng, depth - 1)


def gen_clause_text(rng):
    k = rng.random()
    if k < 0.4:
        return "x(%s)" % gen_expr_text(rng, 3), "fact-with-expression"
    if k < 0.5:
        if rng.random() < 0.3:
            return "%s::(%s : %s)" % (rng.choice(["0.3", "P"]), rng.choice(["m", "X"]), gen_expr_text(rng, 1)), \
                "probabilistic-fact-operator-head"
        return "%s::x(%s)" % (rng.choice(["0.3", "P", "(1/3)"]), gen_expr_text(rng, 2)), "probabilistic-fact-with-expression"
    if k < 0.9:
        return "h(X) :- %s" % ", ".join(gen_goal_text(rng, 2) for _ in range(rng.randint(1, 3))), "rule-with-control"
    return "0.4::h(X) :- %s" % gen_goal_text(rng, 2), "probabilistic-rule-with-control"


def _probabilities(t, out=None, depth=0):
    """The probability annotations in a term, by position (== does not look at them)."""
    out = [] if out is None else out
    if depth > 50 or t is None or isinstance(t, (int, str)):
        return out
    if isinstance(t, list):
        for x in t:
            _probabilities(x, out, depth + 1)
        return out
    out.append(str(getattr(t, "probability", None)))
    for a in (getattr(t, "args", ()) or ()):
        _probabilities(a, out, depth + 1)
    return out


def _has_or_argument(t, depth=0):
    """A disjunction is a direct argument of a compound term in functional notation (findall(X, (a;b), L), call((a;b)))."""
    from problog.logic import Or, And, Clause, Term
    if depth > 60 or not isinstance(t, Term):
        return False
    functional = type(t) == Term and t.op_spec is None and not (t.functor == "." and t.arity == 2)
    for a in (t.args or ()):
        if isinstance(a, list):
            if any(_has_or_argument(x, depth + 1) for x in a):
                return True
            continue
        if functional and type(a) == Or:
            return True
        if _has_or_argument(a, depth + 1):
            return True
    return False


def text_roundtrip(seed):
    """A clause written as text with explicit parentheses, parsed (t1), printed, parsed again (t2): t1 == t2.  This reaches
    the infix printer: only terms that come out of the parser carry operator priorities."""
    from problog.program import PrologString
    rng = random.Random(seed)
    text, kind = gen_clause_text(rng)
    out = dict(text=text, kind=kind, violations=[], nontrivial=False)
    signal.signal(signal.SIGALRM, _alarm)
    signal.alarm(10)
    try:
        try:
            c1 = list(PrologString(text + "."))
        except _Timeout:
            raise
        except Exception as e:      # noqa
            if not classify_exception(e).startswith("problog:"):
                out["violations"].append(("text-roundtrip:first-parse:" + classify_exception(e), "raised %s" % classify_exception(e)))
            return out
        if len(c1) != 1:
            return out
        out["nontrivial"] = True
        t1 = c1[0]
        s = str(t1)
        # listed finding: a disjunction as argument of a compound term is printed without parentheses (the expected
        # output of the repository test clause2_basic_tests pins `c_head_clause((d, e); f,1.0)`)
        orarg = "disjunction-as-argument:" if _has_or_argument(t1) else ""
        try:
            c2 = list(PrologString(s + "."))
        except _Timeout:
            raise
        except Exception as e:      # noqa
            out["violations"].append(("text-roundtrip:" + orarg + "not-parsable:" + kind, "printed as %r, which does not parse: %s"
                                      % (s, classify_exception(e))))
            return out
        if len(c2) != 1 or not (c2[0] == t1) or type(c2[0]) != type(t1) or _probabilities(c2[0]) != _probabilities(t1):
            out["violations"].append(("text-roundtrip:" + orarg + "not-equal:" + kind, "printed as %r, which parses back as %r"
                                      % (s, "; ".join(str(c) for c in c2))))
            return out
        # Term.from_string, the other public way back from text to a term.  Worker processes run many cases one after
        # the other, so this also sees state that one call leaves behind for the next: every 25th case first parses a
        # clause with a negated head (which from_string itself rejects with ValueError: it is rewritten into several clauses)
        from problog.logic import Term
        if seed % 25 == 0:
            try:
                Term.from_string("0.4::\\+rain(X) :- windy(X)")
            except _Timeout:
                raise
            except Exception:      # noqa
                pass
        try:
            t3 = Term.from_string(s)
        except _Timeout:
            raise
        except Exception as e:      # noqa
            out["violations"].append(("text-roundtrip:from_string:" + kind, "Term.from_string(%r) raised %s: %s"
                                      % (s, classify_exception(e), str(e)[:80])))
            return out
        if not (t3 == t1) or type(t3) != type(t1):
            out["violations"].append(("text-roundtrip:from_string:" + kind, "Term.from_string(%r) gives %r" % (s, str(t3))))
    except _Timeout:
        out["violations"].append(("text-roundtrip:timeout", "did not finish within 10 s"))
    except RecursionError:
        pass
    except Exception as e:      # noqa
        out["violations"].append(("text-roundtrip:exception:" + classify_exception(e), "printing raised %s" % classify_exception(e)))
    finally:
        signal.alarm(0)
    return out


def run(pid, tier, seed):
    rng = random.Random(seed * 7 + 17)
    base = corpus()
    n = 200000 if tier == "thorough" else 40000
    texts = []
    for _ in range(n):
        r = rng.random()
        if r < 0.7 and base:
            texts.append(mutate(rng, rng.choice(base)))
        elif r < 0.9:
            texts.append("".join(rng.choice(SNIPPETS + ALPHABET + ["a", "p(X)", "q(a,b)", " :- ", ". "])
                                 for _ in range(rng.randint(1, 14))))
        else:
            texts.append("".join(rng.choice(ALPHABET) for _ in range(rng.randint(1, 30))))
    col = Collector("C17:parser-total", "%d strings: 70%% mutations (1-4 character/snippet edits, truncation) of the %d program "
                    "texts under test/*.pl shorter than 1500 characters, 20%% concatenations of 1-14 syntax snippets, 10%% random "
                    "strings over %d characters; iterating PrologString(text) must return or raise a ProbLogError subclass within "
                    "10 s; non-trivial = at least one clause parsed or a ProbLog error raised" % (n, len(base), len(ALPHABET)))
    for r in pmap("bounded.c17.parse_total", texts):
        col.case(r["text"], nontrivial=r["nontrivial"])
        for name, text in r["violations"]:
            col.violation("bounded:c17:" + name, "%s on input %r" % (text, r["text"]), dict(text=r["text"]))
    m = 200000 if tier == "thorough" else 40000
    col2 = Collector("C17:print-parse-roundtrip", "%d seeded terms and clauses built with the public constructors (atoms incl. "
                     "quoted, ints, floats, strings, variables, compounds, proper and partial lists, %d binary and %d unary "
                     "operators in nested positions, \\+ and not, conjunction/disjunction bodies, probabilistic facts and rules, "
                     "annotated disjunctions; depth <= 3): PrologString(str(t) + '.') must yield exactly one clause == t"
                     % (m, len(BINOPS), len(UNOPS)))
    for r in pmap("bounded.c17.roundtrip", [seed * 1000003 + i for i in range(m)]):
        col2.case(r["text"], nontrivial=r["nontrivial"])
        for name, text in r["violations"]:
            col2.violation("bounded:c17:" + name, text, dict(text=r["text"]))
    k = 200000 if tier == "thorough" else 30000
    col3 = Collector("C17:parse-print-parse-roundtrip", "%d seeded clause texts with explicit parentheses around every operator "
                     "application (facts and probabilistic facts over argument expressions with %d binary and 3 unary operators, "
                     "negative numbers, lists, compounds; rules and probabilistic rules whose bodies nest conjunction, "
                     "disjunction, if-then(-else), \\+, findall/3, call/1 and goals as arguments): the parsed clause t1 is "
                     "printed and parsed again, the result must be one clause == t1 of the same type (this is the only way to "
                     "reach the infix printer: terms carry operator priorities only when they come out of the parser); "
                     "non-trivial = the text parsed" % (k, len(TEXT_BINOPS)))
    for r in pmap("bounded.c17.text_roundtrip", [seed * 7919 + 31 * i for i in range(k)]):
        col3.case(r["text"], nontrivial=r["nontrivial"])
        for name, text in r["violations"]:
            col3.violation("bounded:c17:" + name, "%s (clause text: %s)" % (text, r["text"]), dict(text=r["text"]))
    return [col.result(), col2.result(), col3.result()]
