"""C27 bounded stand-in: run-time contract "inference returns or raises a subclass of ProbLogError" on the top-level
function get_evaluatable().create_from(PrologString(text)).evaluate(), over
  (a) every registered builtin called with seeded random argument shapes (unbound variables, atoms, numbers, strings,
      lists, partial lists, compounds, goals) inside a small program,
  (b) programs of the bounded family damaged at statement level: calls to undefined predicates, non-ground
      probabilistic facts and heads, invalid probabilities, unbound arithmetic, cyclic negation, wrong arities,
  (c) token-level mutations of those program texts (shared with C17).
Never counted as proved."""
import random
import signal

from bounded import progs
from bounded.pipeline import pmap
from bounded.util import Collector, classify_exception

# builtins with side effects on the process / file system or that only print: not called
SKIP = ("write", "writeln", "writenl", "debugprint", "nl/", "trace", "notrace", "dbg_printdb", "print_state", "consult",
        "_consult", "use_module", "_use_module", "module/", "cmd_args", "set_state", "reset_state", "check_state", "./2",
        "call_in_scope", "subquery_in_scope", "create_scope", "find_scope", "seq/")

ARGS = ["X", "Y", "_", "a", "foo", "'A b'", "[]", "0", "1", "-3", "2.5", "1.0e10", "\"str\"", "[a,b]", "[1,2,3]", "[a|T]", "[X]",
        "f(a)", "f(X)", "g(1,2)", "p", "p(1)", "p(X)", "b", "(a,b)", "(a;b)", "\\+a", "1+2", "X+1", "a+1", "f", "3-1",
        "[p(1),p(2)]", "0.5::b", "'[]'", "-", "1/0", "foo(bar(baz))", "[[1],[2]]", "10**400", "true", "fail",
        "g(a,b,c)", "h(1,2,3,4)", "f(g(a,b,c))", "-1.0e-10", "(0.3-0.1-0.2)", "1.0e-10", "'-'(1)", "-(-(1))", "f(_,_)", "f(X,X)"]

COMPOUNDS = ["f(a)", "f(X)", "g(1,2)", "g(a,b,c)", "h(1,2,3,4)", "f(g(a,b,c))", "p(1)", "[a,b]", "a+1", "k(f(a),g(a,b,c))",
             "k(g(a,b,c),f(a))", "f(h(1,2,3,4))"]

BASE = "a.\nb.\n0.5::c.\np(1).\np(2).\n0.3::r(1).\nfoo(bar(baz)).\n"


class _Timeout(Exception):
    pass


def _alarm(signum, frame):
    raise _Timeout()


def builtins():
    from problog.engine import DefaultEngine
    from problog.program import PrologString
    e = DefaultEngine()
    e.prepare(PrologString("a."))
    keys = sorted(set(e._ClauseDBEngine__builtin_index.keys()))
    return [k for k in keys if not any(k.startswith(s) for s in SKIP)]


def run_text(text):
    from problog.program import PrologString
    from problog import get_evaluatable
    out = dict(text=text, violations=[], nontrivial=False)
    signal.signal(signal.SIGALRM, _alarm)
    signal.alarm(20)
    try:
        r = get_evaluatable().create_from(PrologString(text)).evaluate()
        out["nontrivial"] = len(r) > 0
    except _Timeout:
        # A damaged program can be a non-terminating one (e.g. path(X,Y) :- path(\+X,Z), ... builds ever larger terms):
        # the property is about the exception raised when inference *ends*; like RecursionError this is a resource limit
        # (stated assumption), not a verdict.
        out["timeout"] = True
    except RecursionError:
        pass            # resource limit (stated assumption)
    except Exception as e:      # noqa
        c = classify_exception(e)
        if c.startswith("problog:"):
            out["nontrivial"] = True
        else:
            out["violations"].append((c, "raised %s (%s)" % (c, str(e)[:120])))
    finally:
        signal.alarm(0)
    return out


def builtin_programs(rng, names, per):
    out = []
    for k in names:
        name, ar = k.rsplit("/", 1)
        ar = int(ar)
        for _ in range(per):
            args = [rng.choice(ARGS) for _ in range(ar)]
            if ar >= 2 and rng.random() < 0.35:
                # all-compound calls of different widths (comparison, unification and term inspection on wide terms)
                args = [rng.choice(COMPOUNDS) if rng.random() < 0.7 else rng.choice(["X", "_", "O"]) for _ in range(ar)]
            if name[0].isalpha():
                goal = name if ar == 0 else "%s(%s)" % (name, ",".join(args))
            elif ar == 2:
                goal = "%s %s %s" % (args[0], name, args[1])
            else:
                goal = "'%s'(%s)" % (name, ",".join(args))
            shape = rng.random()
            if shape < 0.6:
                text = BASE + "q :- %s.\nquery(q).\n" % goal
            elif shape < 0.8:
                text = BASE + "q(X) :- %s.\nquery(q(_)).\n" % goal
            else:
                text = BASE + "q :- c, %s, r(X).\nquery(q).\nevidence(c).\n" % goal
            out.append(text)
    return out


DAMAGE = [
    lambda r: "q :- undefined_pred(%s).\nquery(q).\n" % r.choice(ARGS),
    lambda r: "0.5::nonground(X).\nquery(nonground(1)).\n",
    lambda r: "0.5::h(X) :- true.\nquery(h(_)).\n",
    lambda r: "%s::w.\nquery(w).\n" % r.choice(["1.5", "-0.2", "foo", "X", "\"s\"", "1/0", "[a]", "f(1)", "nan", "2*0.7",
                                                 "-0.0000000001", "(0.3-0.1-0.2)", "-1.0e-12", "1.0000000001", "(1+1.0e-10)", "-0.0",
                                                 "1.0e-320", "(0.1+0.2-0.3)", "inf", "-1.0e-9", "(1.0e-9 - 2.0e-9)"]),
    lambda r: "q :- X is Y + 1.\nquery(q).\n",
    lambda r: "q :- X is foo + 1.\nquery(q).\n",
    lambda r: "q :- X > 1.\nquery(q).\n",
    lambda r: "n1 :- \\+n2.\nn2 :- \\+n1.\nquery(n1).\n",
    lambda r: "query(X).\n",
    lambda r: "query(1).\n",
    lambda r: "query(%s).\n" % r.choice(ARGS),
    lambda r: "evidence(%s).\nquery(a).\n" % r.choice(ARGS),
    lambda r: "evidence(a, %s).\nquery(a).\n" % r.choice(ARGS),
    lambda r: "p(1,2).\nq :- p(1,2,3).\nquery(q).\n",
    lambda r: "0.4::x; 0.7::y.\nquery(x).\nquery(y).\n",
    lambda r: "0.4::x; 0.7::y :- c.\nquery(x).\n",
    lambda r: "t(_)::z.\nquery(z).\n",
    lambda r: ":- use_module(library(%s)).\nquery(a).\n" % r.choice(["lists", "nosuchlib", "cut", "apply", "X", "1"]),
    lambda r: ":- %s.\nquery(a).\n" % r.choice(["foo", "X", "fail", "1", "consult(nosuchfile)"]),
    lambda r: "q :- findall(X, %s, L), length(L, N), N > 0.\nquery(q).\n" % r.choice(ARGS),
    lambda r: "q :- call(%s).\nquery(q).\n" % r.choice(ARGS),
    lambda r: "q :- \\+ %s.\nquery(q).\n" % r.choice(ARGS),
    lambda r: "q :- subquery(%s, P), P > 0.\nquery(q).\n" % r.choice(ARGS),
    lambda r: "(a, b) :- c.\nquery(a).\n",
    lambda r: "1 :- c.\nquery(c).\n",
    lambda r: "X :- c.\nquery(c).\n",
    lambda r: "0.5::(a, b).\nquery(a).\n",
    lambda r: "0.5::0.5::a.\nquery(a).\n",
    lambda r: "a :- a, \\+a.\nquery(a).\n",
    lambda r: "utility(a, %s).\nquery(a).\n" % r.choice(ARGS),
    # builtins (with and without an arithmetic / type error) as the direct target of query, evidence and subquery
    lambda r: "query(%s).\n" % r.choice(["X is 1/0", "1 < foo", "X is 1 + 2", "1 =:= sqrt(-1)", "X is Y", "2 > 1", "atom(a)",
                                          "X = f(X)", "length(L, N)", "between(1, 3, X)", "X is 2 ** 0.5", "X is \"s\" + 1"]),
    lambda r: "evidence(%s).\nquery(a).\n" % r.choice(["1 =:= sqrt(-1)", "X is 1/0", "1 < foo", "2 > 1", "1 > 2", "a = b"]),
    lambda r: "q :- subquery(%s, P).\nquery(q).\n" % r.choice(["X is 1 mod 0", "1 < foo", "c", "X is 1/0", "2 > 1"]),
    lambda r: "q :- findall(X, %s, L).\nquery(q).\n" % r.choice(["X is 1/0", "1 < foo", "(c, X is foo)"]),
    # (round 4, from the clean-checkout observations of the seeding sub-agents)
    lambda r: ":- use_module(library(lists), %s).\nquery(a).\n" % r.choice(
        ["foo", "except(foo)", "[foo]", "X", "[X]", "[append/3]", "[append/3 as app]", "except([append/3])", "[a|T]", "1", "[1]",
         "[nosuch/2]", "\"s\""]),
    lambda r: "%s(%s).\nquery(a).\n" % (r.choice(["query", "evidence"]), r.choice(
        ["\\+ X", "not(X)", "\\+ \\+ X", "\\+ 1", "\\+ (a, b)", "\\+ \\+ a", "\\+ f(X)", "not(not(X))"])),
    lambda r: "q(T) :- %s =.. T.\nquery(q(_)).\n" % r.choice(
        ["(a, b)", "(a :- b)", "(\\+ a)", "(a ; b)", "(0.5::a)", "[a]", "\"s\"", "1.5", "(a -> b)", "not(a)"]),
    lambda r: "q(X) :- subquery(a, X, %s, %s, %s).\nquery(q(_)).\n" % (
        r.choice(["[]", "[a]", "X", "foo"]), r.choice(["\"nope\"", "\"prob\"", "\"logprob\"", "foo", "X", "1"]),
        r.choice(["\"nope\"", "\"ddnnf\"", "foo", "X", "1"])),
    lambda r: "d(1).\np :- %s(d(X), qq(X)).\nqq(X) :- a.\nqq(X) :- p.\nquery(p).\n" % r.choice(["forall", "findall", "\\+ maplist"]),
    lambda r: "%s\nquery(a).\n" % r.choice([":-.", "( ).", "a :- ( ).", "avg<X>.", "Y :: avg<X>.", "p().", "a :- p().", "?-.", "::.",
                                              "0.5::.", ";.", "a :- ;.", "->.", "a :- (->)."]),
]


def run(pid, tier, seed):
    from bounded import c17
    rng = random.Random(seed * 31 + 27)
    names = builtins()
    per = 200 if tier == "thorough" else 80
    texts = builtin_programs(rng, names, per)
    nb = len(texts)
    fam = progs.programs(seed * 7907 + 27, 400 if tier == "thorough" else 60, max_choices=8)
    nd = 12000 if tier == "thorough" else 3000
    for _ in range(nd):
        base = progs.render(rng.choice(fam)) if rng.random() < 0.6 else BASE
        texts.append(base + rng.choice(DAMAGE)(rng))
    nm = 12000 if tier == "thorough" else 2500
    for _ in range(nm):
        texts.append(c17.mutate(rng, progs.render(rng.choice(fam))))
    col = Collector("C27:inference-raises-only-problog-errors",
                    "%d programs: %d registered builtins (%d skipped: I/O, consult, module and state builtins) x %d calls "
                    "with argument shapes from %d values (unbound, atoms, numbers, strings, lists, partial lists, compounds, "
                    "goals) in three program contexts; %d programs of the bounded family or a small base program plus one of "
                    "%d kinds of user error (undefined predicate, non-ground probabilistic fact, invalid probability, unbound "
                    "arithmetic, negative cycle, bad query/evidence/directive, AD sum > 1, ...); %d token-level mutations of "
                    "family programs; evaluate() must return or raise a ProbLogError subclass within 20 s; non-trivial = "
                    "an answer or a ProbLog error"
                    % (len(texts), len(names), 0, per, len(ARGS), nd, len(DAMAGE), nm))
    for r in pmap("bounded.c27.run_text", texts):
        col.case(r["text"], nontrivial=r["nontrivial"])
        for name, text in r["violations"]:
            col.violation("bounded:c27:" + name, "%s on program:\n%s" % (text, r["text"]), dict(program=r["text"]))
    return [col.result()]
