"""C20 bounded stand-in: run-time contract on the two MPE procedures (problog.tasks.mpe.mpe_maxsat on the LogicDAG the
task builds, mpe_semiring on the LogicFormula the task builds) against exhaustive world enumeration:
  * the returned literals over the probabilistic facts describe an assignment that satisfies the evidence,
  * its probability is maximal among the assignments that satisfy the evidence,
  * the reported probability is the probability of that assignment (relative 1e-3: MaxSAT weight quantisation),
  * evidence of probability zero is reported as unsatisfiable (MaxSAT: no assignment; semiring: probability 0 / error).
Every probabilistic fact and AD head is queried, so the returned literals determine the whole assignment.
Never counted as proved."""
import random
from fractions import Fraction

from bounded import progs, pw
from bounded.pipeline import pmap
from bounded.util import Collector, classify_exception

REL = 1e-3


def gen(rng):
    prog = []
    nf = rng.randint(2, 4)
    facts = [("f%d" % i, ()) for i in range(nf)]
    for a in facts:
        # (probabilities 1.0 and 0.0 included: valid annotations with an infinite / zero MaxSAT weight)
        prog.append(("fact", Fraction(rng.choice([1, 2, 3, 4, 6, 7, 8, 9, 10, 10, 0]), 10), a))
    heads = []
    if rng.random() < 0.5:
        n = rng.randint(2, 3)
        ps = [Fraction(rng.randint(1, 3), 10) for _ in range(n)]
        heads = [("h%d" % j, ()) for j in range(n)]
        prog.append(("ad", list(zip(ps, heads)), []))
    atoms = facts + heads
    derived = [("u%d" % i, ()) for i in range(rng.randint(1, 3))]
    for i, h in enumerate(derived):
        for _ in range(rng.randint(1, 2)):
            body = []
            for _ in range(rng.randint(1, 2)):
                cands = atoms + derived[:i + (1 if rng.random() < 0.2 else 0)]
                a = rng.choice(cands)
                body.append((a == h or not (rng.random() < 0.3), a))     # negation only on earlier atoms (stratified)
            prog.append(("rule", h, body))
    for _ in range(rng.randint(1, 2)):
        prog.append(("evidence", rng.choice(derived + atoms[:1]), rng.random() < 0.6))
    for a in atoms:
        prog.append(("query", a))
    return prog


def reference(prog):
    """-> (best weight, set of best worlds as frozenset of true probabilistic atoms) or (0, set()) if unsatisfiable."""
    g = pw.Ground(prog)
    best = Fraction(0)
    worlds = {}
    for sel, w in g.worlds():
        true, undef = g.wfm(sel)
        if undef:
            continue
        if all((a in true) == v for a, v in g.evidence):
            key = frozenset(h for h, b, c in g.rules if c is not None and sel[c[0]] == c[1])
            worlds[key] = w
            if w > best:
                best = w
    return best, worlds


def weight_of(prog, literals):
    """Weight of the assignment described by literals {atom string: bool} over all probabilistic atoms; None if the
    literals do not describe an assignment (two heads of one AD true, an atom missing)."""
    w = Fraction(1)
    true = set()
    for s in prog:
        if s[0] == "fact":
            a = progs.atom_str(s[2])
            if a not in literals:
                return None, None
            w *= s[1] if literals[a] else 1 - s[1]
            if literals[a]:
                true.add(s[2])
        elif s[0] == "ad":
            chosen = [(p, a) for p, a in s[1] if literals.get(progs.atom_str(a))]
            if any(progs.atom_str(a) not in literals for p, a in s[1]) or len(chosen) > 1:
                return None, None
            if chosen:
                w *= chosen[0][0]
                true.add(chosen[0][1])
            else:
                w *= 1 - sum(p for p, a in s[1])
    return w, frozenset(true)


def check_one(seed):
    from problog.program import PrologString
    from problog.formula import LogicFormula, LogicDAG
    from problog.tasks import mpe
    rng = random.Random(seed)
    prog = gen(rng)
    src = progs.render(prog)
    best, worlds = reference(prog)
    out = dict(src=src, violations=[], nontrivial=len(worlds) > 1)
    for mode in ("maxsat", "semiring"):
        try:
            if mode == "maxsat":
                dag = LogicDAG.createFrom(PrologString(src), avoid_name_clash=True, label_all=True, labels=[("output", 1)])
                prob, facts = mpe.mpe_maxsat(dag)
            else:
                import contextlib
                import io
                lf = LogicFormula.create_from(PrologString(src), label_all=True, avoid_name_clash=True)
                with contextlib.redirect_stderr(io.StringIO()):     # ("compound queries are not supported in the output")
                    prob, facts = mpe.mpe_semiring(lf)
        except Exception as e:      # noqa
            c = classify_exception(e)
            if best == 0 and c.startswith("problog:"):
                continue            # unsatisfiable evidence reported as an error
            out["violations"].append(("%s:exception:%s" % (mode, c.split(":", 1)[1]), "mpe_%s raised %s" % (mode, c)))
            continue
        if best == 0:
            if not (facts is None or float(prob) <= 1e-12):
                out["violations"].append(("%s:unsatisfiable-answered" % mode, "the evidence has probability 0 but mpe_%s returned "
                                          "%s with probability %s" % (mode, facts, prob)))
            continue
        if facts is None:
            out["violations"].append(("%s:satisfiable-reported-unsatisfiable" % mode, "mpe_%s reports no assignment, the best "
                                      "world has probability %s" % (mode, float(best))))
            continue
        literals = {}
        for f in facts:
            s = str(f)
            if s.startswith("\\+"):
                literals[s[2:]] = False
            else:
                literals[s] = True
        # atoms the answer does not mention (e.g. because the evidence fixes them) are completed in the best way
        import itertools
        atoms_all = [progs.atom_str(s[2]) for s in prog if s[0] == "fact"] + \
                    [progs.atom_str(a) for s in prog if s[0] == "ad" for p, a in s[1]]
        missing = [a for a in atoms_all if a not in literals]
        if missing and len(missing) <= 6:
            cands = []
            for bits in itertools.product([False, True], repeat=len(missing)):
                lit2 = dict(literals)
                lit2.update(zip(missing, bits))
                w2, t2 = weight_of(prog, lit2)
                if w2 is not None and t2 in worlds:
                    cands.append((w2, lit2))
            if cands:
                literals = max(cands, key=lambda c: c[0])[1]
        w, true = weight_of(prog, literals)
        if w is None:
            out["violations"].append(("%s:not-an-assignment" % mode, "the returned literals %s do not assign every probabilistic "
                                      "fact / select at most one head per AD" % sorted(literals.items())))
            continue
        if true not in worlds:
            out["violations"].append(("%s:evidence-violated" % mode, "the returned assignment %s does not satisfy the evidence"
                                      % sorted(literals.items())))
            continue
        if float(best) - float(w) > REL * float(best):
            out["violations"].append(("%s:not-most-probable" % mode, "the returned assignment %s has probability %s, the most "
                                      "probable world consistent with the evidence has %s"
                                      % (sorted(literals.items()), float(w), float(best))))
        if abs(float(prob) - float(w)) > REL * max(float(w), 1e-12):
            out["violations"].append(("%s:reported-probability" % mode, "reported probability %s, the returned assignment %s has "
                                      "probability %s" % (prob, sorted(literals.items()), float(w))))
    return out


def run(pid, tier, seed):
    n = 4000 if tier == "thorough" else 500
    col = Collector("C20:mpe-vs-world-enumeration",
                    "%d seeded programs (2-4 probabilistic facts, optionally one annotated disjunction with 2-3 heads, 1-3 derived "
                    "atoms with 1-2 clauses of 1-2 literals, stratified negation and positive self-recursion, 1-2 evidence "
                    "statements, every probabilistic atom queried); mpe_maxsat and mpe_semiring, called the way the mpe task calls "
                    "them, against exhaustive enumeration of the worlds that satisfy the evidence (exact rationals); relative "
                    "tolerance %g on probabilities; non-trivial = more than one world satisfies the evidence" % (n, REL))
    for r in pmap("bounded.c20.check_one", [seed * 2750159 + i for i in range(n)]):
        col.case(r["src"], nontrivial=r["nontrivial"])
        for name, text in r["violations"]:
            col.violation("bounded:c20:" + name, "%s on program:\n%s" % (text, r["src"]), dict(program=r["src"]))
    return [col.result()]
