"""C19 bounded stand-in: run-time contract on findall/3 and all/3 over probabilistic goals through the real pipeline,
against possible-world enumeration: the probability reported for each result list equals the total probability of the
worlds in which the ordered list of the goal's solutions true in that world (Prolog order = order of the facts in the
program, duplicates of the template included) is that list; all/3 has no answer in the worlds without solutions.
Never counted as proved."""
import itertools
import random
from fractions import Fraction

from bounded.pipeline import evaluate_src, pmap
from bounded.util import Collector

CONSTS = ["a", "b", "c"]
TOL = 1e-7


def gen(rng):
    """facts: list of (group, prob or None, pred, args); group: AD id or None (independent)."""
    facts = []
    used = set()
    n = rng.randint(2, 5)
    ad = 0
    while len(facts) < n:
        pred = rng.choice(["g", "g", "h", "e"])
        args = (rng.choice(CONSTS),) if pred != "e" else (rng.choice(CONSTS), rng.choice(CONSTS))
        if (pred, args) in used:
            continue            # one statement per atom (the tabled engine returns each answer of a goal once)
        r = rng.random()
        if r < 0.2:
            facts.append((None, None, pred, args))
        elif r < 0.85:
            facts.append((None, Fraction(rng.randint(1, 9), 10), pred, args))
        else:
            # annotated disjunction of two facts of the same predicate
            args2 = (rng.choice(CONSTS),) if pred != "e" else (rng.choice(CONSTS), rng.choice(CONSTS))
            if (pred, args2) in used or args2 == args:
                continue
            ad += 1
            facts.append((ad, Fraction(rng.randint(1, 4), 10), pred, args))
            facts.append((ad, Fraction(rng.randint(1, 4), 10), pred, args2))
            used.add((pred, args2))
        used.add((pred, args))
    preds = set(f[2] for f in facts)
    kinds = []
    if "g" in preds:
        kinds += ["g(X)", "g(X)"]
    if "g" in preds and "h" in preds:
        # m(X): the negation of a derived atom whose two proofs use one fact in both polarities
        kinds += ["g(X),h(X)", "g(X),\\+h(X)", "r(X)", "m(X)", "m(X)", "s(X)", "s(X)", "v(X)", "v(X)"]
    if "e" in preds:
        kinds += ["e(X,Y)|Y", "e(X,Y)|X-Y", "e(a,Y)|Y", "e(X,Y)|X"]
    if "h" in preds:
        kinds += ["h(X)"]
    kind = rng.choice(kinds)
    which = rng.choice(["findall", "findall", "all"])
    return dict(facts=facts, kind=kind, which=which)


def render(case):
    out = []
    facts = case["facts"]
    i = 0
    while i < len(facts):
        grp, p, pred, args = facts[i]
        atom = "%s(%s)" % (pred, ",".join(args))
        if grp is not None:
            g2, p2, pred2, args2 = facts[i + 1]
            out.append("%s::%s; %s::%s(%s)." % (float(p), atom, float(p2), pred2, ",".join(args2)))
            i += 2
            continue
        out.append("%s." % atom if p is None else "%s::%s." % (float(p), atom))
        i += 1
    kind = case["kind"]
    for missing in ("g", "h", "e"):
        if missing + "(" in kind or kind == "r(X)":
            pass
    if kind == "r(X)":
        out.append("r(X) :- g(X), \\+h(X).")
    if kind == "m(X)":
        out.append("w :- \\+g(a), h(a).")
        out.append("w :- g(a), h(b).")
        out.append("m(X) :- g(X), \\+w.")
    first = ""
    if kind == "s(X)":
        # one answer with several proofs that share a subgoal which has several proofs itself
        out.append("t :- g(c).")
        out.append("t :- h(c).")
        out.append("t :- g(a), h(b).")
        out.append("s(X) :- g(X), t.")
        out.append("s(X) :- h(X), t.")
    if kind == "v(X)":
        # an earlier findall in the same clause reaches the same facts in the opposite order
        out.append("u(X) :- h(X).")
        out.append("u(X) :- g(X).")
        out.append("v(X) :- g(X).")
        out.append("v(X) :- h(X).")
        first = "findall(X0, u(X0), _), "
    goal, _, tmpl = kind.partition("|")
    tmpl = tmpl or "X"
    out.append("q(L) :- %s%s(%s, (%s), L)." % (first, case["which"], tmpl, goal))
    out.append("query(q(_)).")
    return "\n".join(out) + "\n"


def solutions(case, true):
    """Ordered template instances in the world where the facts with index in `true` hold."""
    facts = case["facts"]
    kind = case["kind"]
    holds = [(pred, args) for i, (grp, p, pred, args) in enumerate(facts) if i in true]

    def sols(pred):
        return [args for (pr, args) in holds if pr == pred]
    hset = set(holds)
    if kind in ("g(X)", "h(X)"):
        return [a[0] for a in sols(kind[0])]
    if kind == "g(X),h(X)":
        return [a[0] for a in sols("g") if ("h", a) in hset]
    if kind in ("g(X),\\+h(X)", "r(X)"):
        return [a[0] for a in sols("g") if ("h", a) not in hset]
    if kind in ("s(X)", "v(X)"):
        # Prolog: one solution per proof (clause by clause, and for every proof of the shared subgoal t)
        nt = 1
        if kind == "s(X)":
            nt = int(("g", ("c",)) in hset) + int(("h", ("c",)) in hset) + \
                int(("g", ("a",)) in hset and ("h", ("b",)) in hset)
        out_ = []
        for a in [x[0] for x in sols("g")] + [x[0] for x in sols("h")]:
            out_ += [a] * nt
        return out_
    if kind == "m(X)":
        ga, ha, hb = ("g", ("a",)) in hset, ("h", ("a",)) in hset, ("h", ("b",)) in hset
        w = (not ga and ha) or (ga and hb)
        return [] if w else [a[0] for a in sols("g")]
    goal, _, tmpl = kind.partition("|")
    es = sols("e")
    if goal == "e(a,Y)":
        es = [a for a in es if a[0] == "a"]
    if tmpl == "Y":
        return [a[1] for a in es]
    if tmpl == "X":
        return [a[0] for a in es]
    return ["%s-%s" % a for a in es]


def reference(case):
    facts = case["facts"]
    groups = {}
    indep = []
    for i, (grp, p, pred, args) in enumerate(facts):
        if grp is None:
            indep.append(i)
        else:
            groups.setdefault(grp, []).append(i)
    options = []
    for i in indep:
        p = facts[i][1]
        options.append([({i}, Fraction(1))] if p is None else [({i}, p), (set(), 1 - p)])
    for grp, idx in groups.items():
        opts = [({i}, facts[i][1]) for i in idx]
        opts.append((set(), 1 - sum(facts[i][1] for i in idx)))
        options.append(opts)
    exp = {}
    for combo in itertools.product(*options):
        w = Fraction(1)
        true = set()
        for s, p in combo:
            w *= p
            true |= s
        if w == 0:
            continue
        lst = solutions(case, true)
        if case["which"] == "all" and not lst:
            continue
        key = "q([%s])" % ",".join(lst)
        exp[key] = exp.get(key, Fraction(0)) + w
    return exp


def check_one(seed):
    rng = random.Random(seed)
    case = gen(rng)
    src = render(case)
    exp = reference(case)
    st, res = evaluate_src(src)
    out = dict(src=src, violations=[], nontrivial=len(exp) > 1)
    if st == "exc":
        if not exp and "problog:" in res:
            return out
        out["violations"].append(("exception", "raised %s" % res))
        return out
    res = dict((k.replace(" ", ""), v) for k, v in res.items())

    def unordered(d):
        u = {}
        for k, v in d.items():
            if k.startswith("q([") and abs(float(v)) > TOL:
                items = k[3:-2].split(",") if len(k) > 5 else []
                kk = "q({%s})" % ",".join(sorted(items))
                u[kk] = u.get(kk, 0.0) + float(v)
        return u
    # Some answer has more than one proof in some world (the expected list repeats an element): ProbLog collects one
    # element per proof of the *ground program* and merges proofs that are deterministically the same; listed finding.
    multi = any(len(set(k[3:-2].split(","))) < len(k[3:-2].split(",")) for k in exp if len(k) > 5)
    if multi and any(abs(float(exp.get(k, 0)) - res.get(k, 0.0)) > TOL for k in set(exp) | set(res)):
        out["violations"].append(("multi-proof-answer", "the reported lists %s differ from the expected %s; some answer has "
                                  "several proofs in one world" % (sorted((k, round(v, 6)) for k, v in res.items() if v > TOL),
                                                                   sorted((k, round(float(v), 6)) for k, v in exp.items()))))
        return out
    ur, ue = unordered(res), unordered(exp)
    differs = any(abs(float(exp.get(k, 0)) - res.get(k, 0.0)) > TOL for k in set(exp) | set(res)
                  if not any(c.isupper() for c in k.split("(", 1)[-1].replace("X-", "")))
    if differs and set(ur) == set(ue) and all(abs(ur[k] - ue[k]) <= TOL for k in ur):
        # the same lists up to the order of their elements
        neg = "\\+" in case["kind"] or case["kind"] in ("r(X)", "m(X)")
        shared = case["kind"] == "s(X)"      # every solution goes through the shared subgoal t (same root as C13 self-join)
        out["violations"].append(("list-order:negation" if neg else ("list-order:shared-subgoal" if shared else "list-order"),
                                  "the reported lists %s have the elements of the expected lists %s in another order"
                                  % (sorted((k, round(v, 6)) for k, v in res.items() if v > TOL),
                                     sorted((k, round(float(v), 6)) for k, v in exp.items()))))
        return out
    for k, v in res.items():
        if any(c.isupper() for c in k.split("(", 1)[-1].replace("X-", "")) and abs(v) <= TOL:
            continue
        e = float(exp.get(k, 0))
        if abs(v - e) > TOL:
            out["violations"].append(("wrong-probability", "P(%s) = %.9f, the worlds in which the ordered list of solutions is "
                                      "that list have probability %.9f" % (k, v, e)))
    for k, e in exp.items():
        if k not in res and float(e) > TOL:
            out["violations"].append(("missing-list", "%s not reported, its worlds have probability %.9f" % (k, float(e))))
    return out


def run(pid, tier, seed):
    n = 5000 if tier == "thorough" else 600
    col = Collector("C19:findall-all-vs-possible-worlds",
                    "%d seeded programs: 2-5 facts over g/1, h/1, e/2 on constants {a,b,c} (certain, probabilistic, or pairs in "
                    "an annotated disjunction; one statement per atom), a goal g(X) | h(X) | g(X),h(X) | g(X),\\+h(X) | r(X) with "
                    "r(X) :- g(X),\\+h(X) | e(X,Y) with templates Y, X, X-Y | e(a,Y), collected by findall/3 or all/3 in "
                    "q(L), query(q(_)); every reported list compared with exhaustive world enumeration (exact rationals), "
                    "solutions in the order of the facts in the program; non-trivial = more than one possible list" % n)
    for r in pmap("bounded.c19.check_one", [seed * 6700417 + i for i in range(n)]):
        col.case(r["src"], nontrivial=r["nontrivial"])
        for name, text in r["violations"]:
            col.violation("bounded:c19:" + name, "%s on program:\n%s" % (text, r["src"]), dict(program=r["src"]))
    return [col.result()]
