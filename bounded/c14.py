"""C14 / C18 bounded stand-ins: unification against a reference Robinson unifier; equality/hash laws on terms."""
import itertools
import random
import re

from bounded.pipeline import pmap
from bounded.util import Collector, classify_exception

# ---------------------------------------------------------------- own term representation
# ('v', name) | ('c', text) for atomic constants (text is Prolog syntax) | ('f', functor, [args])
ATOMS = ["a", "b", "1", "1.0", "'A b'", "\"s\"", "[]", "'a'"]
VARS = ["X", "Y", "Z"]


def gen_term(rng, depth):
    r = rng.random()
    if depth == 0 or r < 0.35:
        return ("v", rng.choice(VARS)) if rng.random() < 0.5 else ("c", rng.choice(ATOMS))
    if r < 0.6:
        return ("f", "f", [gen_term(rng, depth - 1)])
    if r < 0.85:
        return ("f", "g", [gen_term(rng, depth - 1), gen_term(rng, depth - 1)])
    return ("f", ".", [gen_term(rng, depth - 1), gen_term(rng, depth - 1) if rng.random() < 0.5 else ("c", "[]")])


def show(t):
    if t[0] == "v":
        return t[1]
    if t[0] == "c":
        return t[1]
    if t[1] == ".":
        return "'.'(%s,%s)" % (show(t[2][0]), show(t[2][1]))
    return "%s(%s)" % (t[1], ",".join(show(a) for a in t[2]))


def walk(t, s):
    while t[0] == "v" and t[1] in s:
        t = s[t[1]]
    return t


def occurs(v, t, s):
    t = walk(t, s)
    if t[0] == "v":
        return t[1] == v
    if t[0] == "f":
        return any(occurs(v, a, s) for a in t[2])
    return False


def cnorm(t):
    """'a' and a are two spellings of one atom (quotes that are not needed)."""
    if not STRICT and t[0] == "c" and re.fullmatch(r"'[a-z][A-Za-z0-9_]*'", t[1]):
        return ("c", t[1][1:-1])
    return t


STRICT = False


def unifiable_only_modulo_quotes(t1, t2):
    """The terms unify, but only because 'a' and a are the same atom."""
    global STRICT
    STRICT = True
    try:
        return mgu(t1, t2, {}) is None
    finally:
        STRICT = False


def mgu(t1, t2, s):
    """Robinson unification with occurs check -> substitution or None."""
    t1, t2 = walk(t1, s), walk(t2, s)
    if t1[0] == "v":
        if t2[0] == "v" and t2[1] == t1[1]:
            return s
        if occurs(t1[1], t2, s):
            return None
        s = dict(s)
        s[t1[1]] = t2
        return s
    if t2[0] == "v":
        return mgu(t2, t1, s)
    if t1[0] == "c" or t2[0] == "c":
        return s if cnorm(t1) == cnorm(t2) else None
    if t1[1] != t2[1] or len(t1[2]) != len(t2[2]):
        return None
    for a, b in zip(t1[2], t2[2]):
        s = mgu(a, b, s)
        if s is None:
            return None
    return s


def unifiable_without_occurs_check(t1, t2):
    """Would unification succeed if the occurs check were dropped (i.e. is the only obstacle a cyclic binding)?"""
    def m(t1, t2, s):
        t1, t2 = walk(t1, s), walk(t2, s)
        if t1[0] == "v":
            if t2[0] == "v" and t2[1] == t1[1]:
                return s
            s = dict(s)
            s[t1[1]] = t2
            return s
        if t2[0] == "v":
            return m(t2, t1, s)
        if t1[0] == "c" or t2[0] == "c":
            return s if cnorm(t1) == cnorm(t2) else None
        if t1[1] != t2[1] or len(t1[2]) != len(t2[2]):
            return None
        for a, b in zip(t1[2], t2[2]):
            s = m(a, b, s)
            if s is None:
                return None
        return s
    try:
        return m(t1, t2, {}) is not None
    except RecursionError:
        return True


def apply(t, s, depth=0):
    t = walk(t, s)
    if t[0] == "f":
        return ("f", t[1], [apply(a, s, depth + 1) for a in t[2]])
    return t


def canon(text, negints_are_vars=True):
    """Rename variables by first occurrence (outside quotes) so that variants compare equal."""
    out, names, i = [], {}, 0
    # unbound variables of an answer are printed as negative integers by engine.query (the family has no
    # negative numbers), bound-but-free ones as X1, X2, ...
    for tok in re.findall(r"'[^']*'|\"[^\"]*\"|-\d+|[A-Za-z_][A-Za-z0-9_]*|.", text):
        if re.fullmatch(r"'[a-z][A-Za-z0-9_]*'", tok):
            tok = tok[1:-1]
        if ((tok[0].isupper() or tok[0] == "_") and tok[0] not in "'\"") or (negints_are_vars and re.fullmatch(r"-\d+", tok)):
            names.setdefault(tok, "V%d" % len(names))
            out.append(names[tok])
        else:
            out.append(tok)
    return "".join(out).replace(" ", "")


def norm_list(text):
    return text


def check_unify(payload):
    t1, t2 = payload
    from problog.program import PrologString
    from problog.engine import DefaultEngine
    from problog.logic import Term
    s1, s2 = show(t1), show(t2)
    case = "%s = %s" % (s1, s2)
    out = dict(case=case, violations=[], nontrivial=False)
    ref = mgu(t1, t2, {})
    vs = "X,Y,Z"
    progs_ = {
        "eq": "u(%s) :- %s = %s." % (vs, s1, s2),
        "neq": "n :- %s \\= %s." % (s1, s2),
        "head": "h(%s). u(%s) :- h(%s)." % (s1, vs, s2),
    }
    res = {}
    for k, src in progs_.items():
        try:
            e = DefaultEngine()
            db = e.prepare(PrologString(src))
            ans = e.query(db, Term("u", None, None, None) if k != "neq" else Term("n"))
            res[k] = ("ok", [tuple(str(x) for x in a) for a in ans])
        except Exception as ex:      # noqa
            res[k] = ("exc", classify_exception(ex))
    def rename(t):
        if t[0] == "v":
            return ("v", t[1] + "h")
        if t[0] == "f":
            return ("f", t[1], [rename(a) for a in t[2]])
        return t
    refs = {"eq": (ref, t1), "head": (mgu(rename(t1), t2, {}), rename(t1))}     # clause variables are renamed apart
    out["nontrivial"] = bool(ref)
    for k in ("eq", "head"):
        ref, lhs = refs[k]
        expected = None
        if ref is not None:
            inst = [apply(("v", v), ref) for v in VARS]
            expected = canon("u(%s)" % ",".join(show(x) for x in inst))
        occurs_only = ref is None and unifiable_without_occurs_check(lhs, t2)
        st, r = res[k]
        if st == "exc":
            if r.startswith("internal:"):
                out["violations"].append((k + ":internal-exception", "%s raised %s" % (progs_[k], r)))
            elif not occurs_only and not (ref is None and "OccursCheck" in r):
                out["violations"].append((k + ":error", "%s raised %s; reference: %s" % (progs_[k], r, "mgu exists" if ref is not None else "not unifiable")))
            continue
        if ref is None:
            if r:
                name = k + (":occurs-check-succeeds" if occurs_only else ":succeeds-without-unifier")
                out["violations"].append((name, "%s succeeds with %s but the terms have no unifier%s"
                                          % (progs_[k], r, " (occurs check)" if occurs_only else "")))
        else:
            if len(r) != 1:
                q = ":quoted-atom" if unifiable_only_modulo_quotes(lhs, t2) else ""
                out["violations"].append((k + ":fails-with-unifier" + q, "%s has %d answers, the terms unify" % (progs_[k], len(r))))
            else:
                # the printed answer does not show which variables of different arguments are shared (an
                # unbound argument prints as a number, the same variable inside a term as X1): compare each
                # argument up to renaming; sharing between the three variables is checked with ==/2 below
                inst = [apply(("v", v), ref) for v in VARS]
                for gi, ei in zip(r[0], inst):
                    g2 = _listnorm(canon(gi).replace("[", "LB").replace("]", "RB"))
                    e2 = _listnorm(canon(show(ei)).replace("[", "LB").replace("]", "RB"))
                    if g2 != e2:
                        out["violations"].append((k + ":bindings", "%s answers %s, the mgu gives %s" % (
                            progs_[k], r[0], [show(x) for x in inst])))
                        break
    # the bindings of the head variables as the *body* of the clause sees them, together with those of the call
    hv = []

    def collect(t):
        if t[0] == "v" and t[1] not in hv:
            hv.append(t[1])
        elif t[0] == "f":
            for a in t[2]:
                collect(a)
    collect(rename(t1))
    src = "h(%s, O) :- O = o(%s).\nu(O) :- h(%s, O0), O = p(O0, X, Y, Z)." % (show(rename(t1)), ",".join(hv) or "none", s2)
    ref_h = refs["head"][0]
    try:
        e = DefaultEngine()
        db = e.prepare(PrologString(src))
        ans = [str(a[0]) for a in e.query(db, Term("u", None))]
        st = "ok"
    except Exception as ex:      # noqa
        st, ans = "exc", classify_exception(ex)
    if st == "exc":
        if ans.startswith("internal:"):
            out["violations"].append(("headbody:internal-exception", "%s raised %s" % (src, ans)))
        elif ref_h is not None and not unifiable_only_modulo_quotes(rename(t1), t2):
            out["violations"].append(("headbody:error", "%s raised %s; the head and the call unify" % (src, ans)))
    elif ref_h is None:
        if ans and not unifiable_without_occurs_check(rename(t1), t2):
            out["violations"].append(("headbody:succeeds-without-unifier", "%s succeeds with %s" % (src, ans)))
    elif len(ans) == 1:
        exp = ("f", "p", [("f", "o", [apply(("v", v), ref_h) for v in hv] or [("c", "none")])] +
               [apply(("v", v), ref_h) for v in VARS])
        g2 = _listnorm(canon(ans[0]).replace("[", "LB").replace("]", "RB"))
        e2 = _listnorm(canon(show(exp)).replace("[", "LB").replace("]", "RB"))
        if g2 != e2:
            out["violations"].append(("headbody:bindings", "%s answers %s, the mgu gives %s" % (src, ans[0], show(exp))))
    if refs["eq"][0] is not None:
        sigma = refs["eq"][0]
        for (i, vi), (j, vj) in itertools.combinations(enumerate(VARS), 2):
            src = "al :- %s = %s, %s == %s." % (s1, s2, vi, vj)
            try:
                e = DefaultEngine()
                db = e.prepare(PrologString(src))
                got_alias = bool(e.query(db, Term("al")))
            except Exception:      # noqa
                continue
            def tnorm(t):
                return ("f", t[1], [tnorm(a) for a in t[2]]) if t[0] == "f" else cnorm(t)
            exp_alias = tnorm(apply(("v", vi), sigma)) == tnorm(apply(("v", vj), sigma))
            if got_alias != exp_alias:
                out["violations"].append(("eq:sharing", "after %s = %s: %s == %s is %s, the mgu makes them %s" % (
                    s1, s2, vi, vj, got_alias, "identical" if exp_alias else "different")))
                break
    st, r = res["neq"]
    if st == "exc":
        if r.startswith("internal:"):
            out["violations"].append(("neq:internal-exception", "%s raised %s" % (progs_["neq"], r)))
    else:
        eq_ok = res["eq"][0] == "ok" and len(res["eq"][1]) > 0
        if res["eq"][0] == "ok" and bool(r) == eq_ok:
            out["violations"].append(("neq:not-complement", "%s: \\= %s while = %s" % (case, "succeeds" if r else "fails", "succeeds" if eq_ok else "fails")))
    return out


def _listnorm(s):
    """'.'(a,'.'(b,[])) and [a,b] print differently; compare on a list-normalised form."""
    prev = None
    while prev != s:
        prev = s
        s = s.replace("'.'(", "cons(")
    # turn printed lists LBa,bRB / LBa|TRB into cons form
    def conv(m):
        body = m.group(1)
        if not body:
            return "nil"
        if "|" in body:
            items, tail = body.rsplit("|", 1)
        else:
            items, tail = body, "nil"
        parts = _split(items)
        r = tail
        for p in reversed(parts):
            r = "cons(%s,%s)" % (p, r)
        return r
    for _ in range(10):
        s2 = re.sub(r"LB([^LR]*?)RB", conv, s)
        if s2 == s:
            break
        s = s2
    return s.replace("LBRB", "nil")


def _split(s):
    parts, depth, cur = [], 0, ""
    for ch in s:
        if ch == "(":
            depth += 1
        elif ch == ")":
            depth -= 1
        if ch == "," and depth == 0:
            parts.append(cur)
            cur = ""
        else:
            cur += ch
    if cur:
        parts.append(cur)
    return parts


def run_c14(tier, seed):
    rng = random.Random(seed * 131 + 14)
    n = 6000 if tier == "thorough" else 800
    pairs = []
    small = [("v", "X"), ("v", "Y"), ("c", "a"), ("c", "1"), ("c", "1.0"), ("f", "f", [("v", "X")]), ("f", "f", [("v", "Y")]),
             ("f", "g", [("v", "X"), ("v", "Y")]), ("f", "g", [("v", "Y"), ("v", "X")]), ("f", "g", [("v", "X"), ("v", "X")]),
             ("f", "g", [("f", "f", [("v", "Y")]), ("f", "f", [("v", "X")])]), ("f", "f", [("c", "a")]),
             ("f", ".", [("v", "X"), ("v", "Y")]), ("f", ".", [("c", "a"), ("c", "[]")]),
             ("c", "'a'"), ("f", "f", [("c", "'a'")]), ("f", "g", [("c", "'a'"), ("c", "a")])]
    pairs += list(itertools.product(small, repeat=2))           # bounded-exhaustive core
    while len(pairs) < n:
        pairs.append((gen_term(rng, 2), gen_term(rng, 2)))
    # wide flat terms with repeated variables on both sides (k/3, k/4 over variables, constants and f(Var)): chains of
    # aliases, and cycles that only close over several argument positions
    def flat(rng, arity):
        def arg():
            r = rng.random()
            if r < 0.55:
                return ("v", rng.choice(VARS))
            if r < 0.85:
                return ("f", "f", [("v", rng.choice(VARS))])
            return ("c", rng.choice(["a", "b"]))
        return ("f", "k", [arg() for _ in range(arity)])
    for _ in range(n // 2):
        ar = rng.choice([3, 4])
        pairs.append((flat(rng, ar), flat(rng, ar)))
    # pairs whose only obstacle is the occurs check (for =/2, or for head matching where the head is renamed apart),
    # found by rejection sampling against the reference
    def rename_h(t):
        if t[0] == "v":
            return ("v", t[1] + "h")
        if t[0] == "f":
            return ("f", t[1], [rename_h(a) for a in t[2]])
        return t
    want, tries = n // 4, 0
    while want and tries < 200000:
        tries += 1
        if rng.random() < 0.5:
            ar = rng.choice([2, 3, 4])
            t1, t2 = flat(rng, ar), flat(rng, ar)
        else:
            t1, t2 = gen_term(rng, 3), gen_term(rng, 3)
        for lhs in (t1, rename_h(t1)):
            if mgu(lhs, t2, {}) is None and unifiable_without_occurs_check(lhs, t2):
                pairs.append((t1, t2))
                want -= 1
                break
    col = Collector("C14:unification", "%d pairs of terms (all pairs of %d core terms; seeded random terms of depth <= 2 over "
                    "atoms %s, variables X,Y,Z with repeats, f/1, g/2, lists; flat k/3 and k/4 terms over variables, f(Var) and "
                    "constants with repeats on both sides; and pairs selected by rejection sampling whose only obstacle is the "
                    "occurs check) through =/2, \\=/2 and clause-head matching, "
                    "against a reference Robinson unifier with occurs check; answers compared up to variable renaming; "
                    "distinct = term pairs; non-trivial = a non-empty mgu" % (len(pairs), len(small), ATOMS))
    for r in pmap("bounded.c14.check_unify", pairs):
        col.case(r["case"], nontrivial=r["nontrivial"])
        for name, text in r["violations"]:
            col.violation("bounded:c14:" + name, text, dict(case=r["case"]))
    return [col.result()]


# ---------------------------------------------------------------- C18
def universe():
    from problog.logic import Term, Constant, Var, Not
    from problog.program import PrologString
    a, b = Term("a"), Term("b")
    U = [("Term('a')", a), ("Term('b')", b), ("Term(\"'a'\")", Term("'a'")), ("Constant('a')", Constant("a")),
         ("Constant(1)", Constant(1)), ("Constant(1.0)", Constant(1.0)), ("Constant('1')", Constant("1")),
         ("Constant(2)", Constant(2)), ("Constant('\"s\"')", Constant('"s"')),
         ("Not('\\\\+',a)", Not("\\+", a)), ("Not('not',a)", Not("not", a)), ("Not('\\\\+',b)", Not("\\+", b)),
         ("f(a)", Term("f", a)), ("f(b)", Term("f", b)), ("f(Constant('a'))", Term("f", Constant("a"))),
         ("f(1)", Term("f", Constant(1))), ("f(1.0)", Term("f", Constant(1.0))), ("g(a,b)", Term("g", a, b)),
         ("g(b,a)", Term("g", b, a)), ("f(f(a))", Term("f", Term("f", a))),
         ("[a,b]", Term(".", a, Term(".", b, Term("[]")))), ("[a]", Term(".", a, Term("[]"))), ("[]", Term("[]")),
         ("Var('X')", Var("X")), ("Var('Y')", Var("Y")), ("f(Var('X'))", Term("f", Var("X"))),
         # floats that differ only beyond the 15th decimal (an arithmetic result and its literal), ints next to equal floats
         ("Constant(0.1+0.2)", Constant(0.1 + 0.2)), ("Constant(0.3)", Constant(0.3)),
         ("w(0.1+0.2)", Term("w", Constant(0.1 + 0.2))), ("w(0.3)", Term("w", Constant(0.3))),
         ("g(2,[1])", Term("g", Constant(2), Term(".", Constant(1), Term("[]")))),
         ("g(2.0,[1])", Term("g", Constant(2.0), Term(".", Constant(1), Term("[]")))),
         ("Constant(-0.0)", Constant(-0.0)), ("Constant(0.0)", Constant(0.0)), ("Constant(0)", Constant(0)),
         ("f(g(a,b))", Term("f", Term("g", a, b))), ("f(g(a,a))", Term("f", Term("g", a, a)))]
    parsed = list(PrologString("q(a). q('a'). q(1). q(1.0). q(\"s\"). q(f(a)). q(\\+a). q(not(a)). q([a,b]). q(g(a,b))."))
    for c in parsed:
        U.append(("parsed:%s" % c.args[0], c.args[0]))
    return U


def run_c18(tier, seed):
    from problog.engine_unify import unify_value, UnifyError
    U = universe()
    col = Collector("C18:equality-laws", "all pairs and triples of a universe of %d terms built with the public constructors "
                    "and by the parser (atoms vs quoted atoms, Constant vs Term, \\+ vs not, ints vs floats vs strings, lists, "
                    "nested compounds, variables): reflexivity, symmetry, transitivity, equal => same hash, ground equal <=> "
                    "unify_value succeeds; exhaustive; distinct = tuples" % len(U))

    from problog.logic import Constant as _Constant, Not as _Not, Var as _Var
    byname = dict(U)

    def subterms(t):
        yield t
        for x in (getattr(t, "args", ()) or ()):
            if hasattr(x, "functor"):
                for y in subterms(x):
                    yield y

    def klass(*names):
        """The listed known findings, decided on the terms themselves: a Constant with a *string* payload is involved
        (its equality goes through the printed text), a Not node is involved (\\+ vs not), or the terms differ only
        in the quotes around an atom.  Anything else is 'other', which no known finding covers."""
        ts = [byname[n] for n in names]
        if any(isinstance(s, _Constant) and isinstance(s.functor, str) for t in ts for s in subterms(t)):
            return "constant-string-equality"
        if any(isinstance(s, _Not) or str(getattr(s, "functor", "")) in ("not", "\\+") for t in ts for s in subterms(t)):
            return "not-functor"
        if any(isinstance(s, _Var) for t in ts for s in subterms(t)):
            return "var-string-equality"
        if len(set(str(t).replace("'", "") for t in ts)) == 1 and len(set(str(t) for t in ts)) > 1:
            return "quoted-atom"
        return "other"
    eq = {}
    for (n1, t1), (n2, t2) in itertools.product(U, repeat=2):
        try:
            eq[(n1, n2)] = bool(t1 == t2)
        except Exception as e:      # noqa
            eq[(n1, n2)] = None
            col.violation("bounded:c18:exception", "%s == %s raised %s" % (n1, n2, classify_exception(e)), dict(a=n1, b=n2))
    for (n, t) in U:
        col.case(("refl", n))
        if eq[(n, n)] is not True:
            col.violation("bounded:c18:reflexive:" + klass(n), "%s == itself is %s" % (n, eq[(n, n)]), dict(a=n))
    for (n1, t1), (n2, t2) in itertools.combinations(U, 2):
        col.case(("sym", n1, n2))
        if eq[(n1, n2)] != eq[(n2, n1)]:
            col.violation("bounded:c18:symmetric:" + klass(n1, n2), "%s == %s is %s but %s == %s is %s"
                          % (n1, n2, eq[(n1, n2)], n2, n1, eq[(n2, n1)]), dict(a=n1, b=n2))
        if eq[(n1, n2)] and eq[(n2, n1)]:
            try:
                if hash(t1) != hash(t2):
                    col.violation("bounded:c18:hash:" + klass(n1, n2), "%s == %s but their hashes differ" % (n1, n2), dict(a=n1, b=n2))
            except Exception as e:      # noqa
                col.violation("bounded:c18:exception", "hash raised %s" % classify_exception(e), dict(a=n1, b=n2))
        g1 = getattr(t1, "is_ground", lambda: True)() and getattr(t2, "is_ground", lambda: True)()
        if g1:
            try:
                unify_value(t1, t2, {})
                un = True
            except UnifyError:
                un = False
            except Exception as e:      # noqa
                un = None
            if un is not None and un != bool(eq[(n1, n2)]):
                col.violation("bounded:c18:eq-vs-unify:" + klass(n1, n2), "%s == %s is %s but unification %s"
                              % (n1, n2, eq[(n1, n2)], "succeeds" if un else "fails"), dict(a=n1, b=n2))
    names = [n for n, _ in U]
    for n1, n2, n3 in itertools.product(names, repeat=3):
        if eq[(n1, n2)] and eq[(n2, n3)]:
            col.case(("trans", n1, n2, n3), nontrivial=len({n1, n2, n3}) == 3)
            if not eq[(n1, n3)]:
                col.violation("bounded:c18:transitive:" + klass(n1, n2, n3), "%s == %s and %s == %s but not %s == %s"
                              % (n1, n2, n2, n3, n1, n3), dict(a=n1, b=n2, c=n3))
    return [col.result(), run_c18_history(tier, seed)]


def _build(desc):
    """desc: ('a', name) | ('i', int) | ('l', [desc...]) | ('t', functor, [desc...]); a fresh object graph on every call."""
    from problog.logic import Term, Constant, list2term
    k = desc[0]
    if k == "a":
        return Term(desc[1])
    if k == "i":
        return Constant(desc[1])
    if k == "l":
        t = Term("[]")
        for d in reversed(desc[1]):
            t = Term(".", _build(d), t)
        return t
    return Term(desc[1], *[_build(d) for d in desc[2]])


def _gen_desc(rng, depth):
    r = rng.random()
    if depth <= 0 or r < 0.25:
        return ("a", rng.choice("abc")) if rng.random() < 0.5 else ("i", rng.randrange(4))
    if r < 0.6:
        n = rng.choice([0, 1, 2, 3, 9, 10, 11, 12, 13, 15, 25])
        return ("l", [_gen_desc(rng, 0 if n > 3 else depth - 1) for _ in range(n)])
    return ("t", rng.choice("fgh"), [_gen_desc(rng, depth - 1) for _ in range(rng.randint(1, 3))])


def _subterms_pre(t, out):
    out.append(t)
    for x in (t.args or ()):
        _subterms_pre(x, out)
    return out


def run_c18_history(tier, seed):
    """Equality and hash must be a function of the term, not of what was asked of it (or of a term that contains it)
    before: Term caches its hash, list length, groundness and variables on first use, and containers read the caches of
    their parts."""
    import random
    n = 20000 if tier == "thorough" else 2500
    rng = random.Random(seed * 7919 + 18)
    col = Collector("C18:hash-independent-of-history", "%d random ground terms (atoms, ints, compounds, lists of 0..25 elements "
                    "nested up to depth 3), each built twice as separate object graphs; on the first copy hash(), "
                    "_list_length(), is_ground(), str() and variables() are called on randomly chosen subterms in random order "
                    "(so that caches are filled through containers first), nothing on the second; then every pair of "
                    "corresponding subterms must be ==, have the same hash and find each other in a dict" % n)
    ops = [hash, lambda t: t._list_length(), lambda t: t.is_ground(), str, lambda t: t.variables()]
    for i in range(n):
        d = _gen_desc(rng, 3)
        t1, t2 = _build(d), _build(d)
        s1, s2 = _subterms_pre(t1, []), _subterms_pre(t2, [])
        order = list(range(len(s1)))
        rng.shuffle(order)
        hist = []
        for j in order[:rng.randint(1, 6)]:
            o = rng.randrange(len(ops))
            hist.append((j, o))
            ops[o](s1[j])
        col.case(("hist", i))
        for j, (x, y) in enumerate(zip(s1, s2)):
            bad = None
            try:
                if not (x == y and y == x):
                    bad = "are not =="
                elif hash(x) != hash(y):
                    bad = "have different hashes"
                elif {x: 1}.get(y) != 1:
                    bad = "do not find each other in a dict"
            except Exception as e:      # noqa
                bad = "raise %s" % classify_exception(e)
            if bad:
                col.violation("bounded:c18:history", "two separately built copies of %s %s after calling %s on subterms of the "
                              "first copy of %s" % (y, bad, [("hash", "_list_length", "is_ground", "str", "variables")[o] +
                                                            "(#%d)" % k for k, o in hist], t2),
                              dict(desc=repr(d), subterm=j, history=hist))
                break
    return col.result()


def run(pid, tier, seed):
    return run_c14(tier, seed) if pid == "C14" else run_c18(tier, seed)
