"""C16 bounded stand-in: is/2, comparisons and term-inspection builtins through the real engine against an
independent reference (my reading of ISO / SWI-7 / Yap-6, DESIGN.md Appendix B)."""
import math
import random

from bounded.util import query, Collector


class RefError(Exception):
    pass


def _trunc_div(a, b):
    if b == 0:
        raise RefError("zero")
    q = abs(a) // abs(b)
    return q if (a < 0) == (b < 0) else -q


def _round_away(x):
    return int(math.floor(x + 0.5)) if x >= 0 else -int(math.floor(-x + 0.5))


def _need_int(*xs):
    for x in xs:
        if not isinstance(x, int):
            raise RefError("type")


def ref_eval(e):
    """-> (value, typed) where typed says whether the int/float type of the value is part of the spec."""
    if isinstance(e, (int, float)):
        return e, True
    op, args = e[0], [ref_eval(a) for a in e[1:]]
    v = [a[0] for a in args]
    try:
        if op in ("+", "-", "*") and len(v) == 2:
            r = {"+": v[0] + v[1], "-": v[0] - v[1], "*": v[0] * v[1]}[op]
            return r, True
        if op == "-" and len(v) == 1:
            return -v[0], True
        if op == "/":
            if v[1] == 0:
                raise RefError("zero")
            return v[0] / v[1], False
        if op == "//":
            _need_int(*v)
            return _trunc_div(v[0], v[1]), True
        if op in ("mod", "rem"):
            _need_int(*v)
            if v[1] == 0:
                raise RefError("zero")
            return v[0] - (v[0] // v[1]) * v[1], True
        if op == "div":
            _need_int(*v)
            if v[1] == 0:
                raise RefError("zero")
            return v[0] // v[1], True
        if op in ("min", "max"):
            if type(v[0]) != type(v[1]):
                raise RefError("unspecified")
            return (min if op == "min" else max)(v[0], v[1]), True
        if op == "abs":
            return abs(v[0]), True
        if op == "sign":
            return (v[0] > 0) - (v[0] < 0), False
        if op == "**":
            _need_int(*v)
            if v[1] < 0:
                raise RefError("unspecified")
            return v[0] ** v[1], False
        if op in ("truncate", "floor", "ceiling", "round"):
            x = v[0]
            if isinstance(x, int):
                return x, True
            return {"truncate": math.trunc, "floor": math.floor, "ceiling": math.ceil, "round": _round_away}[op](x), True
        if op == "float":
            return float(v[0]), True
        if op == "float_integer_part":
            return float(math.trunc(v[0])), True
        if op == "float_fractional_part":
            if isinstance(v[0], int):
                raise RefError("unspecified")
            return v[0] - math.trunc(v[0]), True
        if op in ("/\\", "\\/", "xor", "<<", ">>"):
            _need_int(*v)
            if op in ("<<", ">>") and v[1] < 0:
                raise RefError("unspecified")
            if op == "<<" and v[1] > 64:
                raise RefError("unspecified")
            return {"/\\": v[0] & v[1], "\\/": v[0] | v[1], "xor": v[0] ^ v[1], "<<": v[0] << v[1] if op == "<<" else 0,
                    ">>": v[0] >> v[1] if op == ">>" else 0}[op], True
        if op == "\\":
            _need_int(*v)
            return ~v[0], True
    except OverflowError:
        raise RefError("overflow")
    raise RefError("unspecified")


BIN = ["+", "-", "*", "/", "//", "mod", "rem", "div", "min", "max", "**", "/\\", "\\/", "xor", "<<", ">>"]
UN = ["-", "abs", "sign", "truncate", "floor", "ceiling", "round", "float", "float_integer_part",
      "float_fractional_part", "\\"]
INTS = [-7, -3, -2, -1, 0, 1, 2, 3, 5, 7, 10]
FLOATS = [-7.5, -2.5, -0.5, 0.0, 0.5, 1.5, 2.5, 3.0, 10.25]


def gen_expr(rng, depth):
    if depth == 0 or rng.random() < 0.3:
        return rng.choice(INTS) if rng.random() < 0.6 else rng.choice(FLOATS)
    if rng.random() < 0.65:
        return (rng.choice(BIN), gen_expr(rng, depth - 1), gen_expr(rng, depth - 1))
    return (rng.choice(UN), gen_expr(rng, depth - 1))


def render(e):
    if isinstance(e, (int, float)):
        return "(%r)" % e if e < 0 else repr(e)
    if len(e) == 3:
        if e[0] in ("min", "max"):
            return "%s(%s,%s)" % (e[0], render(e[1]), render(e[2]))
        return "(%s %s %s)" % (render(e[1]), e[0], render(e[2]))
    if e[0] in ("-", "\\"):
        return "%s(%s)" % (e[0], render(e[1]))
    return "%s(%s)" % (e[0], render(e[1]))


def check_is(col, e):
    text = render(e)
    st, res = query("p(X) :- X is %s." % text, "p(X)")
    try:
        exp, typed = ref_eval(e)
        exp_err = None
    except RefError as err:
        exp, typed, exp_err = None, False, str(err)
    key = text
    col.case(key, nontrivial=not isinstance(e, (int, float)))
    if st == "exc":
        if res.startswith("internal:"):
            col.violation("bounded:is/2:internal-exception", "X is %s raised %s" % (text, res), dict(expr=text))
        elif exp_err is None:
            col.violation("bounded:is/2:unexpected-error", "X is %s raised %s, expected %r" % (text, res, exp),
                          dict(expr=text))
        return
    if exp_err in ("zero",):
        col.violation("bounded:is/2:missing-error", "X is %s answered %s, expected an evaluation error (%s)"
                      % (text, res, exp_err), dict(expr=text))
        return
    if exp_err is not None:
        return          # unspecified by the oracle
    if len(res) != 1:
        col.violation("bounded:is/2:answers", "X is %s gave %d answers" % (text, len(res)), dict(expr=text))
        return
    got = res[0][0]
    try:
        gv = got.functor
    except AttributeError:
        gv = got
    ok = isinstance(gv, (int, float)) and not isinstance(gv, bool)
    if ok and isinstance(exp, float) and (math.isinf(exp) or math.isnan(exp)):
        return
    if ok:
        if isinstance(exp, float) or isinstance(gv, float):
            ok = abs(float(gv) - float(exp)) <= 1e-9 * max(1.0, abs(float(exp)))
        else:
            ok = gv == exp
        if ok and typed and type(gv) != type(exp):
            ok = False
    if not ok:
        col.violation("bounded:is/2:value", "X is %s gave %r, Prolog gives %r" % (text, gv, exp), dict(expr=text))


ERROR_EXPRS = ["1 / 0", "1 // 0", "1 mod 0", "log(0)", "sqrt(-1)", "exp(1000)", "10**400 * 1.0", "\"a\" + 1",
               "a + 1", "Y + 1", "foo(1)", "(-2) ** 0.5", "acos(2)", "1.0 / 0", "2 ** 0.5 ** 2000"]


def builtin_cases():
    """(program, goal, expected sorted answer strings or 'error') — ISO semantics of the supported modes."""
    c = []
    for lo, hi in ((1, 3), (0, 0), (2, 1), (-2, 1)):
        c.append(("p(X) :- between(%d,%d,X)." % (lo, hi), "p(X)", [str(i) for i in range(lo, hi + 1)], True))
        for v in (lo - 1, lo, hi, hi + 1):
            c.append(("p :- between(%d,%d,%d)." % (lo, hi, v), "p", ["yes"] if lo <= v <= hi else [], True))
    for b in (0, 1, 5):
        c.append(("p(X) :- succ(X,%d)." % b, "p(X)", [str(b - 1)] if b > 0 else [], True))
    for a in (0, 4):
        c.append(("p(X) :- succ(%d,X)." % a, "p(X)", [str(a + 1)], True))
    c.append(("p :- succ(3,4).", "p", ["yes"], True))
    c.append(("p :- succ(3,5).", "p", [], True))
    for a, b in ((1, 2), (-3, 3), (0, 0)):
        c.append(("p(X) :- plus(%d,%d,X)." % (a, b), "p(X)", [str(a + b)], True))
        c.append(("p(X) :- plus(%d,X,%d)." % (a, a + b), "p(X)", [str(b)], True))
        c.append(("p(X) :- plus(X,%d,%d)." % (b, a + b), "p(X)", [str(a)], True))
        c.append(("p :- plus(%d,%d,%d)." % (a, b, a + b + 1), "p", [], True))
    c.append(("p(N) :- length([a,b,c],N).", "p(N)", ["3"], True))
    c.append(("p(N) :- length([],N).", "p(N)", ["0"], True))
    c.append(("p :- length([a,b],2).", "p", ["yes"], True))
    c.append(("p :- length([a,b],3).", "p", [], True))
    c.append(("p(N,A) :- functor(f(a,b),N,A).", "p(N,A)", ["f,2"], True))
    c.append(("p(N,A) :- functor(foo,N,A).", "p(N,A)", ["foo,0"], True))
    c.append(("p(N,A) :- functor(7,N,A).", "p(N,A)", ["7,0"], True))
    c.append(("p(X) :- arg(1,f(a,b),X).", "p(X)", ["a"], True))
    c.append(("p(X) :- arg(2,f(a,b),X).", "p(X)", ["b"], True))
    c.append(("p(X) :- arg(3,f(a,b),X).", "p(X)", [], True))
    c.append(("p(X) :- arg(0,f(a,b),X).", "p(X)", [], True))          # argument positions start at 1
    c.append(("p(X) :- arg(1,f(g(a)),X).", "p(X)", ["g(a)"], True))
    c.append(("p :- arg(2,f(a,b),b).", "p", ["yes"], True))
    c.append(("p :- arg(2,f(a,b),a).", "p", [], True))
    c.append(("p(N,A) :- functor(1.5,N,A).", "p(N,A)", ["1.5,0"], True))
    c.append(("p(T) :- functor(T,f,0).", "p(T)", ["f"], True))
    # atom_number/2: text of an atom <-> number (quoted atoms are the only atoms that look like numbers)
    c.append(("p(X) :- atom_number('12',X).", "p(X)", ["12"], True))
    c.append(("p(X) :- atom_number('-7',X).", "p(X)", ["-7"], True))
    c.append(("p(X) :- atom_number('1.5',X).", "p(X)", ["1.5"], True))
    c.append(("p(X) :- atom_number(abc,X).", "p(X)", [], True))
    c.append(("p :- atom_number('12',12).", "p", ["yes"], True))
    c.append(("p :- atom_number('12',13).", "p", [], True))
    c.append(("p :- atom_number('12',12.0).", "p", [], True))
    c.append(("p(Y) :- functor(3,F,_), Y is F+1.", "p(Y)", ["4"], True))           # the functor of a number is the number
    c.append(("p :- functor(3,F,A), integer(F), A == 0.", "p", ["yes"], True))
    c.append(("p :- functor(2.5,F,0), float(F).", "p", ["yes"], True))
    c.append(("p(X) :- atom_number('2.0',X).", "p(X)", ["2.0"], True))       # the text of a float gives a float
    c.append(("p :- atom_number('2.0',2).", "p", [], True))
    c.append(("p :- atom_number('2.0',2.0).", "p", ["yes"], True))
    c.append(("p(X) :- atom_number('9007199254740993',X).", "p(X)", ["9007199254740993"], True))    # 2**53 + 1, exactly
    c.append(("p :- atom_number('9007199254740993',9007199254740992).", "p", [], True))
    c.append(("p(X) :- atom_number('100000.0',X), float(X).", "p(X)", ["100000.0"], True))
    c.append(("p(X) :- atom_number('7',X), integer(X).", "p(X)", ["7"], True))
    c.append(("p(X) :- atom_number(X,12).", "p(X)", ["12"], True))
    c.append(("p(X) :- atom_number(X,1.5).", "p(X)", ["1.5"], True))
    # partially instantiated terms: the builtin must pass its bindings on
    c.append(("p(X,Y) :- foo(X,b) =.. [foo,a,Y].", "p(X,Y)", ["a,b"], True))
    c.append(("p(X) :- T = f(X), T =.. [f,2].", "p(X)", ["2"], True))
    c.append(("p(X) :- T = f(X), T =.. [f,2], q(X).\nq(1). q(2). q(3).", "p(X)", ["2"], True))
    c.append(("p :- f(a,b) =.. [f,a,c].", "p", [], True))
    c.append(("p :- f(a,b) =.. [g,a,b].", "p", [], True))
    c.append(("p(X) :- arg(1,f(X,b),a).", "p(X)", ["a"], True))
    c.append(("p(X) :- arg(2,f(a,g(X)),g(c)).", "p(X)", ["c"], True))
    c.append(("p(N,A) :- functor(f(X,b),N,A).", "p(N,A)", ["f,2"], True))
    # arithmetic comparison evaluates BOTH sides, also when they are the same term
    for op in ("=:=", "=\\=", "<", ">", "=<", ">="):
        c.append(("p :- 1/0 %s 1/0." % op, "p", "error", True))
        c.append(("p :- X = a, X %s X." % op, "p", "error", True))
        c.append(("p :- 3 mod 0 %s 3 mod 0." % op, "p", "error", True))
    c.append(("p :- 2+1 =:= 2+1.", "p", ["yes"], True))
    c.append(("p :- 2+1 =\\= 2+1.", "p", [], True))
    c.append(("p :- nan =:= nan.", "p", [], True))
    c.append(("p :- nan =\\= nan.", "p", ["yes"], True))
    c.append(("p :- inf =:= inf.", "p", ["yes"], True))
    c.append(("p(L) :- f(a,b) =.. L.", "p(L)", ["[f, a, b]"], True))
    c.append(("p(L) :- foo =.. L.", "p(L)", ["[foo]"], True))
    c.append(("p(T) :- T =.. [g,1,2].", "p(T)", ["g(1,2)"], True))
    tests = {"var": ["X"], "nonvar": ["a", "1", "f(X)"], "atom": ["a", "[]"], "atomic": ["a", "1", "1.5"],
             "number": ["1", "1.5", "-3"], "integer": ["1", "-3"], "float": ["1.5"], "compound": ["f(a)", "[a]"],
             "callable": ["a", "f(a)"], "is_list": ["[]", "[a,b]"], "ground": ["a", "f(a,1)"]}
    allv = ["X", "a", "1", "1.5", "-3", "f(a)", "f(X)", "[]", "[a,b]", "[a|T]"]
    neg = {"var": ["a", "1", "f(X)"], "nonvar": ["X"], "atom": ["1", "f(a)", "X", "1.5"],
           "atomic": ["f(a)", "X", "[a]"], "number": ["a", "X", "f(1)"], "integer": ["1.5", "a", "X"],
           "float": ["1", "a", "X"], "compound": ["a", "1", "X", "[]"], "callable": ["1", "X", "1.5"],
           "is_list": ["a", "[a|T]", "f(a)"], "ground": ["X", "f(X)", "[a|T]"]}
    for t, vals in tests.items():
        for v in vals:
            c.append(("p :- %s(%s)." % (t, v), "p", ["yes"], True))
        for v in neg[t]:
            # is_list on a partial list: a listed known finding (own violation name, see known_findings.json)
            c.append(("p :- %s(%s)." % (t, v), "p", [],
                      "bounded:builtin:is_list-partial-list" if (t, v) == ("is_list", "[a|T]") else True))
    for a, op, b, exp in ((1, "<", 2, 1), (2, "<", 1, 0), (2, "=<", 2, 1), (3, ">", 2, 1), (2, ">=", 3, 0),
                          (2, "=:=", 2, 1), (2, "=\\=", 2, 0), (1.5, "<", 2.5, 1), (-3, "<", -2, 1), (10, ">", 9, 1),
                          (2.0, "=:=", 2.0, 1)):
        c.append(("p :- %r %s %r." % (a, op, b), "p", ["yes"] if exp else [], True))
    return c


def _fmt(ans):
    if ans == ():
        return "yes"
    return ",".join(str(x) for x in ans)


def run(tier, seed):
    import problog.logic as L
    out = []
    # 1. bindings of the non-lambda table entries (exhaustive over the finite table)
    col = Collector("C16:arithmetic-table-bindings", "every non-lambda entry of _arithmetic_functions is the C-library / "
                    "Python function of that name (exhaustive); distinct = table keys")
    T = L._arithmetic_functions
    expect = {("atan", 2): math.atan2, ("atan2", 2): math.atan2, ("integer", 1): int, ("float", 1): float,
              ("abs", 1): abs, ("min", 2): min, ("max", 2): max, ("exp", 2): math.pow}
    for n in ["exp", "log", "log10", "sqrt", "sin", "cos", "tan", "asin", "acos", "atan", "sinh", "cosh", "tanh",
              "asinh", "acosh", "atanh", "lgamma", "gamma", "erf", "erfc"]:
        expect[(n, 1)] = getattr(math, n)
    for k, f in expect.items():
        col.case("%s/%d" % k)
        if T.get(k) is not f:
            col.violation("bounded:table-binding", "_arithmetic_functions[%r] is %r, expected %r" % (k, T.get(k), f),
                          dict(key=list(k)))
    out.append(col.result())
    # 2. is/2 on expression trees
    col = Collector("C16:is/2", "random expression trees (depth<=3) over ints %s, floats %s and all documented "
                    "operators, evaluated by `X is E` through the engine vs the reference evaluator; distinct = "
                    "distinct expression texts with at least one operator" % (INTS, FLOATS))
    rng = random.Random(seed)
    n = 4000 if tier == "thorough" else 400
    # bounded-exhaustive part: every binary operator on all small pairs, every unary operator on all values
    vals = [-7, -2, 0, 2, 3, 2.5, -0.5]
    for op in BIN:
        for a in vals:
            for b in vals:
                check_is(col, (op, a, b))
    for op in UN:
        for a in INTS + FLOATS:
            check_is(col, (op, a))
    for _ in range(n):
        check_is(col, gen_expr(rng, 3))
    for text in ERROR_EXPRS:
        st, res = query("p(X) :- X is %s." % text, "p(X)")
        col.case("error:" + text)
        if st != "exc" or not res.startswith("problog:"):
            col.violation("bounded:is/2:error-class", "X is %s -> %s %s, expected a ProbLog error" % (text, st, res),
                          dict(expr=text))
    out.append(col.result())
    # 3. comparison and term-inspection builtins, supported modes
    col = Collector("C16:builtins", "between/3, succ/2, plus/3, length/2, functor/3, arg/3, =../2, type tests and "
                    "arithmetic comparisons on their supported modes vs ISO answers (hand-written table, exhaustive)")
    for prog, goal, exp, tag in builtin_cases():
        st, res = query(prog, goal)
        vname = tag if isinstance(tag, str) else "bounded:builtin:answers"
        col.case(prog)
        if st == "exc":
            if res.startswith("internal:") or exp != "error":
                col.violation("bounded:builtin:exception", "%s -> %s" % (prog, res), dict(program=prog))
            continue
        got = sorted(_fmt(a) for a in res)
        if got != sorted(exp):
            col.violation(vname, "%s answered %s, Prolog answers %s" % (prog, got, sorted(exp)),
                          dict(program=prog))
    out.append(col.result())
    return out
