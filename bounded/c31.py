"""C31 bounded stand-in: run-time contract on problog.tasks.bayesnet.formula_to_bn, called the way the bn task calls it,
for evidence-free programs: the joint distribution defined by the returned network (its factors multiplied out by an
independent evaluator written here: conditional tables and deterministic OR nodes, in topological order, exact
branching over the stochastic rows) gives every exported query variable the probability ProbLog reports for that query,
and every query with a probability strictly between 0 and 1 is exported (under its own name or as another name of
the same node).  Never counted as proved."""
from bounded import progs, pw
from bounded.pipeline import pmap
from bounded.util import Collector, classify_exception

TOL = 1e-7


def bn_marginals(bn):
    """{variable name: P(variable = its second value)} by exact enumeration of the network."""
    from problog.pgm.cpd import OrCPT
    order = list(bn.factors_topological())
    marg = dict((f.rv, 0.0) for f in order)
    total = [0.0]

    def key_for(f, assign):
        key = []
        for p in f.parents:
            key.append(assign[p])
        k = tuple(key)
        if k in f.table:
            return k
        kb = tuple(bool(x) for x in key)
        if kb in f.table:
            return kb
        raise KeyError("no row %r in the table of %s (rows %s)" % (k, f.rv, list(f.table)[:4]))

    def rec(i, assign, w):
        if i == len(order):
            total[0] += w
            for v, x in assign.items():
                if x == 1:
                    marg[v] += w
            return
        f = order[i]
        if isinstance(f, OrCPT):
            assign[f.rv] = 1 if any(assign[p] == v for p, v in f.parentvalues) else 0
            rec(i + 1, assign, w)
            del assign[f.rv]
            return
        row = f.table[key_for(f, assign)]
        for idx, pr in enumerate(row):
            if pr > 0:
                assign[f.rv] = idx
                rec(i + 1, assign, w * pr)
                del assign[f.rv]
    rec(0, {}, 1.0)
    return marg, total[0]


def check_one(prog):
    from problog.program import PrologString, ExtendedPrologFactory
    from problog.formula import LogicDAG
    from problog.parser import DefaultPrologParser
    from problog.tasks.bayesnet import formula_to_bn
    from problog import get_evaluatable
    prog = [s for s in prog if s[0] != "evidence"]
    src = progs.render(prog)
    out = dict(src=src, violations=[], nontrivial=False)
    try:
        gp = LogicDAG.createFrom(PrologString(src, parser=DefaultPrologParser(ExtendedPrologFactory())), label_all=True,
                                 avoid_name_clash=False, keep_order=True, keep_all=False, keep_duplicates=False,
                                 hide_builtins=False)
        probs = dict((str(k), float(v)) for k, v in get_evaluatable().create_from(gp).evaluate().items())
    except Exception:      # noqa  (programs inference rejects are the subject of C01/C02)
        return dict(skip=True)
    import signal

    def _alarm(signum, frame):
        raise TimeoutError("formula_to_bn / evaluation of the network did not finish within 20 s")
    signal.signal(signal.SIGALRM, _alarm)
    signal.alarm(20)
    try:
        import contextlib
        import io
        with contextlib.redirect_stdout(io.StringIO()), contextlib.redirect_stderr(io.StringIO()):
            bn = formula_to_bn(gp)
            marg, total = bn_marginals(bn)
        signal.alarm(0)
    except SystemExit as e:
        # the bn code prints "[ERROR] ..." and calls sys.exit() on ground programs it does not expect
        signal.alarm(0)
        out["violations"].append(("exception:SystemExit", "formula_to_bn called sys.exit(%s)" % (e.code,)))
        return _classed(out, gp, prog)
    except Exception as e:      # noqa
        signal.alarm(0)
        out["violations"].append(("exception:" + classify_exception(e).split(":", 1)[1], "formula_to_bn / evaluation of the "
                                  "network raised %s (%s)" % (classify_exception(e), str(e)[:100])))
        return _classed(out, gp, prog)
    out["nontrivial"] = any(0 < v < 1 for v in probs.values())
    if abs(total - 1.0) > 1e-6:
        out["violations"].append(("not-normalised", "the factors of the network multiply out to total mass %.9f" % total))
        return _classed(out, gp, prog)
    nodes = {}
    for name, key in gp.queries():
        nodes.setdefault(key, []).append(str(name))
    for q, p in probs.items():
        if any(c.isupper() for c in q.split("(", 1)[-1]):
            continue
        if q in marg:
            if abs(marg[q] - p) > TOL:
                out["violations"].append(("marginal", "the network gives P(%s) = %.9f, ProbLog reports %.9f" % (q, marg[q], p)))
        elif TOL < p < 1 - TOL:
            # exported under another name of the same node?
            same = [n for names in nodes.values() if q in names for n in names if n in marg]
            if not same:
                out["violations"].append(("query-not-exported", "query %s (probability %.9f) is not a variable of the network "
                                          "(variables: %s)" % (q, p, sorted(marg)[:12])))
            elif abs(marg[same[0]] - p) > TOL:
                out["violations"].append(("marginal", "the network gives P(%s) = %.9f (the node of %s), ProbLog reports %.9f"
                                          % (same[0], marg[same[0]], q, p)))
    return _classed(out, gp, prog)


def _classed(out, gp, prog):
    """Suffix every violation with the class of the ground program (the listed known findings are per class):
    aliased-node - some node of the ground program carries two or more names (two atoms with the same ground definition,
    or an atom defined by a single literal): formula_to_bn goes through enum_clauses, which writes one name per node;
    negation - the program contains a negated literal; ad - it contains an annotated disjunction; plain - none of these."""
    if not out["violations"]:
        return out
    names = {}
    for name, key, label in gp.get_names_with_label():
        if key is not None and key != 0:
            names.setdefault(abs(key), set()).add(str(name))
    single = any(s[0] == "rule" and len(set(l for l in s[2] if l[1][0] != "d")) == 1 for s in prog)
    # ... and a body literal that is implied by another literal of the same body (q(X) :- s(X), g2(X) with
    # s(X) :- f1, g2(X)): the conjunction collapses onto the node of the stronger literal
    bodies = {}
    for st in prog:
        if st[0] in ("rule", "ad") and st[2]:
            heads = [st[1]] if st[0] == "rule" else [h for _, h in st[1]]
            for h in heads:
                bodies.setdefault(h[0], set()).update(l[1][0] for l in st[2])
    implied = any(st[0] == "rule" and any(b[1][0] in bodies.get(a[1][0], ()) for a in st[2] for b in st[2] if a is not b)
                  for st in prog)
    if any(len(v) > 1 for v in names.values()) or single or implied:
        # (decided on the program as well: a clause whose body is, apart from the domain predicate d/1 and repeated
        # literals, a single literal makes its head another name of that literal's node)
        cls = "aliased-node"
    elif any(not pos for s in prog if s[0] in ("rule", "ad") for pos, _ in s[2]):
        cls = "negation"
    elif any(s[0] == "ad" and len(s[1]) > 1 for s in prog):
        cls = "ad"
    else:
        cls = "plain"
    out["violations"] = [("%s:%s" % (cls, n), t) for n, t in out["violations"]]
    return out


def run(pid, tier, seed):
    n = 6000 if tier == "thorough" else 900
    # two thirds without negation and without annotated disjunctions (the part of the family on which the export is
    # checked strictly, see the known findings), one third from the whole acyclic family
    ps = progs.programs(seed * 86028121 + 31, n - n // 3, max_choices=9, evidence=False, recursion=False, disj=False,
                        negation=False, ads=False, max_body=3)
    ps += progs.programs(seed * 86028121 + 32, n // 3, max_choices=9, evidence=False, recursion=False, disj=False)
    col = Collector("C31:bn-export-vs-inference",
                    "%d seeded evidence-free acyclic programs of the bounded family (probabilistic facts incl. noisy-or and "
                    "non-ground ones, annotated disjunctions with and without bodies, stratified negation); formula_to_bn on the "
                    "LogicDAG the bn task builds; the network's factors multiplied out by an independent exact evaluator; "
                    "marginals of the exported query variables vs the probabilities ProbLog reports (1e-7); non-trivial = some "
                    "query probability strictly between 0 and 1" % n)
    for r in pmap("bounded.c31.check_one", ps):
        if r.get("skip"):
            continue
        col.case(r["src"], nontrivial=r["nontrivial"])
        for name, text in r["violations"]:
            col.violation("bounded:c31:" + name, "%s on program:\n%s" % (text, r["src"]), dict(program=r["src"]))
    return [col.result()]
