"""C32 bounded stand-in: run-time contract on select_weighted/5, select_weighted/4 and select_uniform/4 of
library(lists) (Prolog text: no Python function of its own) through the real pipeline, against the closed form:
exactly one element is chosen, element i with probability w_i / sum(w), the rest is the list without position i (order
kept); calls with the same identifier make the same choice, calls with different identifiers are independent.
Never counted as proved."""
import random
from fractions import Fraction

from bounded.pipeline import evaluate_src, pmap
from bounded.util import Collector

TOL = 1e-7
ELEMS = ["a", "b", "c", "d"]


def plist(xs):
    return "[" + ",".join(xs) + "]"


def gen(rng):
    n = rng.randint(1, 6)
    values = [rng.choice(ELEMS) for _ in range(n)]            # equal elements included
    kind = rng.choice(["weighted5", "weighted5", "weighted4", "uniform"])
    if kind == "uniform":
        weights = [Fraction(1)] * n
    else:
        weights = [Fraction(rng.randint(1, 9), rng.choice([1, 2, 10])) for _ in range(n)]
        r = rng.random()
        if r < 0.3:
            weights = [weights[0]] * n
        elif r < 0.5 and n >= 2:
            # halving weights 2^k, ..., 2, 1, 1 over few distinct values: the conditional weight w_i / (w_i + ... + w_n)
            # is 1/2 at every position, so equal elements at different positions differ only in their position
            weights = [Fraction(2 ** max(n - 2 - i, 0)) for i in range(n)]
            values = [rng.choice(ELEMS[:2]) for _ in range(n)]
    pair = rng.choice(["single", "same-id", "different-id"])
    return dict(values=values, weights=weights, kind=kind, pair=pair)


def call(case, ident, v, r):
    vs = plist(case["values"])
    ws = plist([repr(float(w)) for w in case["weights"]])
    if case["kind"] == "uniform":
        return "select_uniform(%s, %s, %s, %s)" % (ident, vs, v, r)
    if case["kind"] == "weighted4":
        wv = plist(["(%s,%s)" % (repr(float(w)), x) for w, x in zip(case["weights"], case["values"])])
        return "select_weighted(%s, %s, %s, %s)" % (ident, wv, v, r)
    return "select_weighted(%s, %s, %s, %s, %s)" % (ident, ws, vs, v, r)


def render(case):
    out = [":- use_module(library(lists))."]
    if case["pair"] == "single":
        out.append("q(V, R) :- %s." % call(case, "id1", "V", "R"))
        out.append("query(q(_, _)).")
    else:
        id2 = "id1" if case["pair"] == "same-id" else "id2"
        out.append("q(V1, R1, V2, R2) :- %s, %s." % (call(case, "id1", "V1", "R1"), call(case, id2, "V2", "R2")))
        out.append("query(q(_, _, _, _)).")
    return "\n".join(out) + "\n"


def reference(case):
    vals, ws = case["values"], case["weights"]
    tot = sum(ws)
    single = []
    for i, (v, w) in enumerate(zip(vals, ws)):
        rest = vals[:i] + vals[i + 1:]
        single.append(((v, plist(rest)), w / tot))
    exp = {}
    if case["pair"] == "single":
        for (v, r), p in single:
            k = "q(%s,%s)" % (v, r)
            exp[k] = exp.get(k, Fraction(0)) + p
    elif case["pair"] == "same-id":
        for (v, r), p in single:
            k = "q(%s,%s,%s,%s)" % (v, r, v, r)
            exp[k] = exp.get(k, Fraction(0)) + p
    else:
        for (v, r), p in single:
            for (v2, r2), p2 in single:
                k = "q(%s,%s,%s,%s)" % (v, r, v2, r2)
                exp[k] = exp.get(k, Fraction(0)) + p * p2
    return exp


def norm(k):
    return k.replace(" ", "")


def check_one(seed):
    rng = random.Random(seed)
    case = gen(rng)
    src = render(case)
    exp = reference(case)
    st, res = evaluate_src(src)
    out = dict(src=src, violations=[], nontrivial=len(exp) > 1)
    if st == "exc":
        out["violations"].append(("exception", "raised %s" % res))
        return out
    res = dict((norm(k), v) for k, v in res.items())
    for k, v in res.items():
        if k not in exp:
            if abs(v) > TOL:
                out["violations"].append(("unexpected-selection", "%s = %s is not a selection of one element with the "
                                          "remaining list in order%s" % (k, v, " (same identifier must give the same choice)"
                                                                         if case["pair"] == "same-id" else "")))
        elif abs(v - float(exp[k])) > TOL:
            out["violations"].append(("wrong-probability", "P(%s) = %.9f, weight / total weight gives %.9f"
                                      % (k, v, float(exp[k]))))
    for k, e in exp.items():
        if k not in res and float(e) > TOL:
            out["violations"].append(("missing-selection", "%s not reported, expected %.9f" % (k, float(e))))
    return out


def run(pid, tier, seed):
    n = 2000 if tier == "thorough" else 240
    col = Collector("C32:select-weighted-vs-closed-form",
                    "%d seeded calls: lists of length 1-6 over {a,b,c,d} (equal elements included), positive weights k/1, k/2, "
                    "k/10 (or all equal), select_weighted/5, select_weighted/4 (pairs), select_uniform/4; single call, two "
                    "calls with the same identifier (same choice), two calls with different identifiers (independent); "
                    "every reported instance compared with weight/total and the list without the chosen position; "
                    "non-trivial = more than one possible selection" % n)
    res = pmap("bounded.c32.check_one", [seed * 15485863 + i for i in range(n)])
    for r in res:
        col.case(r["src"], nontrivial=r["nontrivial"])
        for name, text in r["violations"]:
            col.violation("bounded:c32:%s" % name, "%s on program:\n%s" % (text, r["src"]), dict(program=r["src"]))
    return [col.result()]
