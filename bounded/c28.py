"""C28 bounded stand-in: nested Python values through py2pl/pl2py, and problog_export through the engine."""
import os
import random
import shutil
import tempfile

from bounded.util import Collector, classify_exception

STRS = ["", "a", "hello world", 'a"b', "it's", '"', "'", '""', "x'y\"z", "[]", "A", "1"]
FLOATS = [0.0, 0.5, -2.25, 1e-20, 1.0e10, 123456.789, 0.1234567890123456789, 3.0]
INTS = [0, 1, -7, 10 ** 20]


def gen(rng, depth):
    r = rng.random()
    if depth == 0 or r < 0.45:
        k = rng.random()
        if k < 0.4:
            return rng.choice(INTS)
        if k < 0.7:
            return rng.choice(STRS)
        return rng.choice(FLOATS)
    n = rng.choice([0, 2, 3])
    items = [gen(rng, depth - 1) for _ in range(n)]
    return items if r < 0.75 else tuple(items)


def has_imprecise_float(v):
    if isinstance(v, float):
        return round(v, 15) != v
    if isinstance(v, (list, tuple)):
        return any(has_imprecise_float(x) for x in v)
    return False


def has_tuple_last_tuple(v):
    if isinstance(v, tuple) and v and isinstance(v[-1], tuple) and len(v[-1]) != 0:
        return True
    if isinstance(v, (list, tuple)):
        return any(has_tuple_last_tuple(x) for x in v)
    return False


def same(a, b):
    if type(a) != type(b):
        return False
    if isinstance(a, (list, tuple)):
        return len(a) == len(b) and all(same(x, y) for x, y in zip(a, b))
    return a == b


EXTERN_SRC = '''
from problog.extern import problog_export

VALUES = %r

@problog_export("+int", "-int")
def get_int(i):
    return VALUES["int"][i]

@problog_export("+int", "-float")
def get_float(i):
    return VALUES["float"][i]

@problog_export("+int", "-str")
def get_str(i):
    return VALUES["str"][i]

@problog_export("+int", "-list")
def get_list(i):
    return VALUES["list"][i]

@problog_export("+int", "+int", "-int")
def add(a, b):
    return a + b

@problog_export("+str", "-str")
def echo(s):
    return s

@problog_export("+int", "+int", "-int", "-int")
def sum_prod(a, b):
    return a + b, a * b

@problog_export("+int", "-int", "-int", "-int")
def triple(a):
    return a, a + 10, a + 20
'''

# calls of the multi-output exports with every binding pattern of the outputs: a bound output acts as a test against the
# Python result (position by position).  (goal, expected answers)
MULTI_OUT = [
    ("sum_prod(2,3,S,P)", ["2,3,5,6"]), ("sum_prod(2,3,5,P)", ["2,3,5,6"]), ("sum_prod(2,3,S,6)", ["2,3,5,6"]),
    ("sum_prod(2,3,5,6)", ["2,3,5,6"]), ("sum_prod(2,3,4,P)", []), ("sum_prod(2,3,S,7)", []), ("sum_prod(2,3,6,5)", []),
    ("sum_prod(2,3,5,7)", []), ("sum_prod(2,3,4,6)", []),
    ("triple(1,A,B,C)", ["1,1,11,21"]), ("triple(1,1,B,C)", ["1,1,11,21"]), ("triple(1,A,11,C)", ["1,1,11,21"]),
    ("triple(1,A,B,21)", ["1,1,11,21"]), ("triple(1,1,11,C)", ["1,1,11,21"]), ("triple(1,A,11,21)", ["1,1,11,21"]),
    ("triple(1,2,B,C)", []), ("triple(1,A,12,C)", []), ("triple(1,A,B,22)", []), ("triple(1,1,12,C)", []),
    ("triple(1,21,11,1)", []), ("triple(1,A,21,11)", []), ("triple(1,11,B,21)", []),
]


def run(tier, seed):
    from problog.pypl import py2pl, pl2py
    out = []
    col = Collector("C28:py2pl-pl2py", "nested lists/tuples (lengths 0,2,3; depth<=3) over ints %s, floats %s, strings "
                    "%s; pl2py(py2pl(v)) must equal v with the same types; distinct = values" % (INTS, FLOATS, STRS))
    rng = random.Random(seed)
    vals = list(INTS) + list(FLOATS) + list(STRS) + [[], (), [[]], ([],), [(), ()]]
    vals += [[s] for s in STRS] + [(s, s) for s in STRS]
    vals += [gen(rng, 3) for _ in range(3000 if tier == "thorough" else 400)]
    for v in vals:
        if isinstance(v, tuple) and len(v) == 1:
            continue
        col.case(repr(v))
        try:
            back = pl2py(py2pl(v))
        except Exception as e:      # noqa
            col.violation("bounded:c28:exception", "pl2py(py2pl(%r)) raised %s" % (v, classify_exception(e)),
                          dict(value=repr(v)))
            continue
        if not same(back, v):
            if has_imprecise_float(v):
                name = "bounded:c28:float-precision"
            elif has_tuple_last_tuple(v):
                name = "bounded:c28:tuple-last-element-tuple"
            else:
                name = "bounded:c28:roundtrip"
            col.violation(name, "pl2py(py2pl(%r)) = %r" % (v, back), dict(value=repr(v)))
    out.append(col.result())
    # ---- problog_export
    col = Collector("C28:problog_export", "exported Python functions returning int/float/str/list values, called from a "
                    "program; the answer term must denote exactly the Python result; distinct = (type, value)")
    values = {"int": [0, -5, 12345678901234567890], "float": [0.5, -2.25, 1.0e10, 3.0],
              "str": ["a", "hello world", "Abc", "it's"], "list": [[], [1, 2, 3], [1, [2, 3]], [(1, 2), 3], [1, (2, 3, 4)], [("a", "b")],
                                                          [[(1, 2)], (3, [4, 5])]]}
    d = tempfile.mkdtemp(prefix="c28_")
    try:
        with open(os.path.join(d, "c28_extern.py"), "w") as f:
            f.write(EXTERN_SRC % (values,))
        from problog.program import PrologString
        from problog import get_evaluatable
        from problog.logic import term2list
        for t, vs in values.items():
            for i, v in enumerate(vs):
                src = ":- use_module('%s').\nq(X) :- get_%s(%d, X).\nquery(q(_)).\n" % (
                    os.path.join(d, "c28_extern.py"), t, i)
                col.case((t, repr(v)))
                try:
                    r = get_evaluatable().create_from(PrologString(src)).evaluate()
                except Exception as e:      # noqa
                    col.violation("bounded:c28:export-exception", "get_%s -> %s" % (t, classify_exception(e)),
                                  dict(type=t, value=repr(v)))
                    continue
                if len(r) != 1 or abs(list(r.values())[0] - 1.0) > 1e-9:
                    col.violation("bounded:c28:export-answers", "get_%s(%d) answered %s" % (t, i, r), dict(type=t))
                    continue
                arg = list(r.keys())[0].args[0]
                if t in ("int", "float"):
                    ok = type(arg.functor) == type(v) and arg.functor == v
                elif t == "str":
                    ok = arg.arity == 0 and str(arg.functor).strip("'") == v
                else:
                    ok = same(term2list(arg), v)
                if not ok:
                    name = "bounded:c28:export-float-precision" if (t == "float" and round(v, 15) != v) \
                        else "bounded:c28:export-value"
                    col.violation(name, "exported %s value %r is seen as %s" % (t, v, arg), dict(type=t, value=repr(v)))
        src = ":- use_module('%s').\nq(X) :- add(20, 22, X).\nr(X) :- echo(\"some text\", X).\nquery(q(_)). query(r(_)).\n" \
              % os.path.join(d, "c28_extern.py")
        col.case("inputs")
        try:
            r = get_evaluatable().create_from(PrologString(src)).evaluate()
            got = sorted(str(k) for k in r)
            if got != ["q(42)", "r(some text)"]:
                col.violation("bounded:c28:export-inputs", "add/echo answered %s" % got, dict())
        except Exception as e:      # noqa
            col.violation("bounded:c28:export-exception", "add/echo -> %s" % classify_exception(e), dict())
        from problog.engine import DefaultEngine
        from problog.logic import Term
        for goal, expected in MULTI_OUT:
            col.case(("multi-output", goal))
            try:
                eng = DefaultEngine()
                db = eng.prepare(PrologString(":- use_module('%s').\n" % os.path.join(d, "c28_extern.py")))
                res = eng.query(db, Term.from_string(goal))
                got = sorted(",".join(str(x) for x in ans) for ans in res)
            except Exception as e:      # noqa
                col.violation("bounded:c28:export-exception", "%s -> %s" % (goal, classify_exception(e)), dict(goal=goal))
                continue
            if got != sorted(expected):
                col.violation("bounded:c28:export-multi-output", "%s answered %s, the Python function returns %s"
                              % (goal, got, expected), dict(goal=goal))
    finally:
        shutil.rmtree(d, ignore_errors=True)
    out.append(col.result())
    return out
