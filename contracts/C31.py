"""C31 — Bayesian-network export preserves the distribution (bounded stand-in: bounded/c31.py)."""
from pyvc.dsl import *

S = Spec("C31", "Bayesian-network export preserves the distribution")
LEVEL = "exploration"
S.unverified("everything: bounded run-time contract only")


def bounded(tier, seed):
    from bounded import c31
    return c31.run("C31", tier, seed)
