"""C25 — Exported ground programs keep the original semantics (bounded stand-in only; see bounded/c25.py).

Run-time contract on the real transformation / top-level functions, evaluated over the bounded program family
(translation validation of each instance, or a metamorphic relation between two runs).  Never counted as proved.
"""
from pyvc.dsl import *

S = Spec("C25", "Exported ground programs keep the original semantics")
LEVEL = "exploration"
S.unverified("everything: bounded run-time contract only")


def bounded(tier, seed):
    from bounded import c25
    return c25.run("C25", tier, seed)
