"""C27 — User errors surface as ProbLog errors, never as crashes (bounded stand-in: bounded/c27.py).  The implicit safety
obligations of the functions under deductive contract (C12, C15, C16, C28, C30, C34: no IndexError / KeyError / TypeError /
ZeroDivisionError escapes under the stated preconditions) are discharged under those properties."""
from pyvc.dsl import *

S = Spec("C27", "User errors surface as ProbLog errors, never as crashes")
LEVEL = "exploration"
S.unverified("everything: bounded run-time contract only")


def bounded(tier, seed):
    from bounded import c27
    return c27.run("C27", tier, seed)
