"""C15 — term comparison and sort/2 follow the standard order of terms.

The reference order `std_cmp` is written here from the property text (and ProbLog's own documented
placement of strings): Var < Number < String < Atom < Compound; numbers by exact value, a float before
an equal integer; strings and atoms by text (atoms without their surrounding quotes); compounds by
arity, then name, then arguments left to right.
"""
from pyvc.dsl import *

S = Spec("C15", "Term comparison and sort/2 follow the standard order of terms")
S.float_rounding = True      # float(int) rounds above 2^53 and overflows above 2^1024 (not idealised here)
S.assume("A-term: Term/Var/Constant objects are immutable trees abstracted to the Term datatype "
         "(constructor tests stand for is_var/is_constant/is_float/is_integer/is_string/isinstance)")
S.assume("the value of the term '-'(N) for a numeric constant N is -N (Term.value / compute_function on unary "
         "minus; that table entry is verified under C16)")

S.global_defs = dict(
    isvar="lambda t: tk(t) <= 2",
    isnumc="lambda t: tk(t) == 3 or tk(t) == 4",
    isneg="lambda t: tk(t) == 6 and t_functor(t) == \"'-'\" and t_arity(t) == 1 and isnumc(t_args(t)[0])",
    isnum="lambda t: isnumc(t) or isneg(t)",
    isintc="lambda t: tk(t) == 3",
    isint="lambda t: isintc(t) or (isneg(t) and isintc(t_args(t)[0]))",
    isflt="lambda t: isnum(t) and not isint(t)",
    numvalc="lambda t: t_cf(t) if tk(t) == 4 else real(t_ci(t))",
    numval="lambda t: (-numvalc(t_args(t)[0])) if isneg(t) else numvalc(t)",
    isstr="lambda t: tk(t) == 5",
    sgn="lambda x: (-1 if x < 0 else (1 if x > 0 else 0))",
    scmp="lambda s1, s2: (-1 if s1 < s2 else (1 if s2 < s1 else 0))",
    fcmp="lambda x, y: (-1 if x < y else (1 if y < x else 0))",
    # atom text: the functor without its surrounding single quotes
    plain="lambda s: not (len(s) >= 1 and (s[0] == \"'\" or s[len(s) - 1] == \"'\"))",
    quoted="lambda s: len(s) >= 2 and s[0] == \"'\" and s[len(s) - 1] == \"'\" and plain(s[1:len(s) - 1])",
    atext="lambda s: s[1:len(s) - 1] if quoted(s) else s",
)

S.global_defs.update(
    varcmp="lambda a, b: scmp(t_vname(a), t_vname(b)) if tk(a) == 2 and tk(b) == 2 else sgn(t_vi(a) - t_vi(b))",
    numcmp="lambda a, b: fcmp(numval(a), numval(b)) if numval(a) != numval(b) else"
           " (-1 if isflt(a) and isint(b) else (1 if isflt(b) and isint(a) else 0))",
    cmp3="lambda a, b: numcmp(a, b) if isnum(a) and isnum(b) else (-1 if isnum(a) else (1 if isnum(b) else cmp4(a, b)))",
    cmp4="lambda a, b: scmp(t_cs(a), t_cs(b)) if isstr(a) and isstr(b) else"
         " (-1 if isstr(a) else (1 if isstr(b) else cmp5(a, b)))",
    cmp5="lambda a, b: sgn(t_arity(a) - t_arity(b)) if t_arity(a) != t_arity(b) else"
         " (scmp(atext(t_functor(a)), atext(t_functor(b))) if atext(t_functor(a)) != atext(t_functor(b)) else"
         " lexcmp(t_args(a), t_args(b), 0))",
)
S.recfun("std_cmp", [("a", "Term"), ("b", "Term")], "Int",
         "varcmp(a, b) if isvar(a) and isvar(b) else (-1 if isvar(a) else (1 if isvar(b) else cmp3(a, b)))")
S.recfun("lexcmp", [("xs", "List[Term]"), ("ys", "List[Term]"), ("i", "Int")], "Int",
         "0 if (i < 0 or i >= len(xs) or i >= len(ys)) else"
         " (std_cmp(xs[i], ys[i]) if std_cmp(xs[i], ys[i]) != 0 else lexcmp(xs, ys, i + 1))")
# all variables occurring in t have constructor k (2: Var objects, 1: ints), and functors are well-formed
S.recfun("okterm", [("t", "Term"), ("k", "Int")], "Bool",
         "(tk(t) == k) if isvar(t) else"
         " (True if tk(t) != 6 else"
         "  ((plain(t_functor(t)) or quoted(t_functor(t))) and t_arity(t) >= 0 and"
         "   forall(lambda i: implies(0 <= i < t_arity(t), okterm(t_args(t)[i], k)))))")

S.fn("problog.engine_builtin:compare", types={"a": "Int", "b": "Int"}, inline=True)

S.fn("problog.engine_builtin:struct_cmp", types={"a": "Term", "b": "Term"}, returns="Int",
     requires=["(okterm(a, 1) and okterm(b, 1)) or (okterm(a, 2) and okterm(b, 2))"],
     loops={0: loop(index="k", invariant=[
         "lexcmp(t_args(a), t_args(b), 0) == lexcmp(t_args(a), t_args(b), k)"])},
     # stepping stones (proved, then used): the compared names are the atom texts of the spec
     at=[("fa = unquote(str(a.functor))", "fa == atext(t_functor(a))"),
         ("fb = unquote(str(b.functor))", "fb == atext(t_functor(b))")],
     ensures=["result == std_cmp(a, b)"])

for nm, rel in (("lt", "<"), ("le", "<="), ("gt", ">"), ("ge", ">=")):
    S.fn("problog.engine_builtin:_builtin_struct_%s" % nm, types={"a": "Term", "b": "Term", "k": "None"},
         returns="Bool",
         requires=["(okterm(a, 1) and okterm(b, 1)) or (okterm(a, 2) and okterm(b, 2))"],
         ensures=["result == (std_cmp(a, b) %s 0)" % rel])

# ==/2 and \==/2: identity is equality in the standard order (so that compare/3 answers '=' exactly when == holds)
S.fn("problog.engine_builtin:_builtin_same", types={"arg1": "Term", "arg2": "Term", "kwdargs": "None"}, returns="Bool",
     requires=["(okterm(arg1, 1) and okterm(arg2, 1)) or (okterm(arg1, 2) and okterm(arg2, 2))"],
     ensures=["result == (std_cmp(arg1, arg2) == 0)"])
S.fn("problog.engine_builtin:_builtin_notsame", types={"arg1": "Term", "arg2": "Term", "kwdargs": "None"}, returns="Bool",
     requires=["(okterm(arg1, 1) and okterm(arg2, 1)) or (okterm(arg1, 2) and okterm(arg2, 2))"],
     ensures=["result == (std_cmp(arg1, arg2) != 0)"])

# ---------------------------------------------------------------- bounded stand-ins (run-time contracts)
# sort/2 and compare/3 go through check_mode / list_elements / build_list / unify_value and Python's
# sorted() and set(): outside the verifier's subset.  Their contracts are evaluated at run time on the
# real functions over generated terms (never counted as proved).
S.fn("problog.engine_builtin:_builtin_sort", types={"l": "Term", "s": "Term", "k": "None"}, native_only=True,
     requires=["proper_list(l) and tk(s) <= 2"],
     ensures=["len(result) == 1",
              "strictly_ascending(elems(result[0][1]))",
              "same_members(elems(result[0][1]), elems(l))"])
S.fn("problog.engine_builtin:_builtin_compare", types={"c": "Term", "a": "Term", "b": "Term", "k": "None"},
     native_only=True,
     requires=["tk(c) <= 2"],
     ensures=["len(result) == 1",
              "t_functor(result[0][0]) == {-1: \"'<'\", 0: \"'='\", 1: \"'>'\"}[std_cmp(a, b)]"])

S.unverified("variables represented by None (anonymous) or a mix of named and numbered variables: Python's "
             "None < None / int < str raise TypeError inside struct_cmp; excluded by precondition")
S.unverified("_builtin_compare / _builtin_sort: mode checking and list building (check_mode, list_elements, "
             "build_list) are outside the supported subset; covered by the bounded stand-in below")
S.unverified("termination of the recursion in struct_cmp (partial correctness only)")


# =============================================================================== native side
def _elems(t):
    out = []
    while t is not None and not isinstance(t, int) and t.functor == "." and t.arity == 2:
        out.append(t.args[0])
        t = t.args[1]
    return out


def _proper_list(t):
    while t is not None and not isinstance(t, int) and t.functor == "." and t.arity == 2:
        t = t.args[1]
    return t is not None and not isinstance(t, int) and t.functor == "[]" and t.arity == 0


def _strictly_ascending(xs):
    return all(std_cmp(x, y) < 0 for x, y in zip(xs, xs[1:]))      # noqa: F821 (injected native twin)


def _same_members(xs, ys):
    return all(any(std_cmp(x, y) == 0 for y in ys) for x in xs) and \
        all(any(std_cmp(x, y) == 0 for x in xs) for y in ys)       # noqa: F821


NATIVE_SPEC = {"elems": _elems, "proper_list": _proper_list, "strictly_ascending": _strictly_ascending,
               "same_members": _same_members}

_INTS = [-3, -2, 0, 2, 9, 10, 2 ** 53, 2 ** 53 + 1, 10 ** 400]
_FLOATS = ["-5/2", "0/1", "2/1", "10/1", "9007199254740992/1"]
_ATOMS = ["a", "b", "aa", "'A'", "'b c'", "[]", "'hello world'", "z"]
_FUNCTORS = ["f", "g", "'F'", "'-'", "'+'", "h"]


def _gen_term(rng, depth, named_vars):
    r = rng.random()
    if r < 0.25:
        return ["cint", rng.choice(_INTS)]
    if r < 0.40:
        return ["cfloat", rng.choice(_FLOATS)]
    if r < 0.60:
        return ["struct", 0, rng.choice(_ATOMS), []]
    if r < 0.65:
        return ["cstr", rng.choice(['"s"', '"t"', '"a b"'])]
    if r < 0.72:
        return ["var", rng.choice(["X", "Y", "Z"])] if named_vars else ["vint", rng.randint(-3, 3)]
    if r < 0.80 or depth <= 0:
        # negative literal in compound form: '-'(N)
        return ["struct", 0, "'-'", [{"term": rng.choice([["cint", rng.choice([1, 2, 3, 10])],
                                                          ["cfloat", rng.choice(["5/2", "2/1"])]])}]]
    n = rng.randint(1, 2)
    return ["struct", 0, rng.choice(_FUNCTORS), [{"term": _gen_term(rng, depth - 1, named_vars)} for _ in range(n)]]


def _variant(rng, t, named_vars):
    """A copy of term description t with one position replaced (often the last argument)."""
    import copy
    t = copy.deepcopy(t)
    if t[0] == "struct" and t[3] and rng.random() < 0.85:
        i = len(t[3]) - 1 if rng.random() < 0.6 else rng.randrange(len(t[3]))
        t[3][i] = {"term": _variant(rng, t[3][i]["term"], named_vars)}
        return t
    return _gen_term(rng, 1, named_vars)


def _mk_list(items):
    t = ["struct", 0, "[]", []]
    for it in reversed(items):
        t = ["struct", 0, ".", [{"term": it}, {"term": t}]]
    return t


def native_cases(qual, rng):
    name = qual.split(":")[1]
    for _ in range(1000000):
        nv = rng.random() < 0.8
        if name in ("struct_cmp",) or name.startswith("_builtin_struct_"):
            a = _gen_term(rng, 2, nv)
            # half of the pairs differ in exactly one position (so that equal prefixes are exercised)
            yield dict(a=a, b=_variant(rng, a, nv) if rng.random() < 0.5 else _gen_term(rng, 2, nv))
        elif name == "_builtin_compare":
            yield dict(c=["var", "O"], a=_gen_term(rng, 2, nv), b=_gen_term(rng, 2, nv))
        elif name == "_builtin_sort":
            yield dict(l=_mk_list([_gen_term(rng, 1, nv) for _ in range(rng.randint(0, 6))]), s=["var", "L"])
        else:
            return


def native_build(qual, recipe):
    from pyvc import native_term
    return dict((k, native_term.build(v)) for k, v in recipe.items())
