"""C02 — programs with a cycle through negation are rejected, never answered (bounded stand-in only).
Same run-time contract as C01 on programs with predicate-level cycles through negation, classified by the
reference as must-reject / must-answer / either (bounded/pw.py, three-valued well-founded model per world)."""
from pyvc.dsl import *

S = Spec("C02", "Programs with a cycle through negation are rejected, never answered")
LEVEL = "exploration"
S.unverified("everything: bounded run-time contract on the top-level inference function only")


def bounded(tier, seed):
    from bounded import c01
    return c01.run(tier, seed, "C02")
