"""C12 — built-in semirings obey their algebra and documented defaults.

Every semiring method is loop-free (except ad_complement): the harnesses below are loop-free
programs over full-domain symbolic inputs, with the real method bodies taken from /repo on every
run (inlined), or used through their own verified contract (log-space plus/times/negate).
"""
from pyvc.dsl import *

S = Spec("C12", "Built-in semirings obey their algebra and documented defaults")
S.cls("problog.evaluator:Semiring")
S.cls("problog.evaluator:SemiringProbability")
S.cls("problog.evaluator:SemiringLogProbability")
S.cls("problog.tasks.mpe:SemiringMPEState")
S.cls("problog.tasks.mpe:SemiringMinPEState")
S.alias("P", "Ref[SemiringProbability]")
S.alias("L", "Ref[SemiringLogProbability]")
S.alias("B", "Ref[Semiring]")
S.alias("M", "Ref[SemiringMPEState]")
S.alias("MN", "Ref[SemiringMinPEState]")
S.alias("St", "Tuple[Float,Set[Int]]")
S.alias("V", "Abs[SemiringValue]")
P = L = B = M = MN = St = V = None

S.assume("A-float: Python floats are treated as extended reals (no rounding, no NaN); the laws are "
         "therefore proved exactly, which implies them within any floating tolerance only up to rounding")

S.recfun("sumf", [("ws", "List[Float]"), ("k", "Int")], "Float",
         "0.0 if k <= 0 else sumf(ws, k - 1) + ws[k - 1]")
S.recfun("sumexp", [("ws", "List[Float]"), ("k", "Int")], "Float",
         "0.0 if k <= 0 else sumexp(ws, k - 1) + math.exp(ws[k - 1])")

# ---------------------------------------------------------------- base class (documented defaults)
# A user semiring defines one/zero/plus/times only; `one()` / `zero()` return some value of its
# carrier.  The carrier is an abstract sort, one()/zero() are abstract pure functions of self.
S.fn("problog.evaluator:Semiring.one", abstract=True, returns="V")
S.fn("problog.evaluator:Semiring.zero", abstract=True, returns="V")


def base_is_one_of_one(s: B):
    assert s.is_one(s.one())


def base_is_zero_of_zero(s: B):
    assert s.is_zero(s.zero())


def base_normalize_by_one(s: B, a: V):
    assert s.normalize(a, s.one()) == a


# ---------------------------------------------------------------- probability semiring
def prob_plus_assoc(s: P, a: "Float", b: "Float", c: "Float"):
    requires(0.0 <= a <= 1.0 and 0.0 <= b <= 1.0 and 0.0 <= c <= 1.0)
    assert s.plus(s.plus(a, b), c) == s.plus(a, s.plus(b, c))


def prob_plus_comm(s: P, a: "Float", b: "Float"):
    requires(0.0 <= a <= 1.0 and 0.0 <= b <= 1.0)
    assert s.plus(a, b) == s.plus(b, a)


def prob_times_assoc(s: P, a: "Float", b: "Float", c: "Float"):
    requires(0.0 <= a <= 1.0 and 0.0 <= b <= 1.0 and 0.0 <= c <= 1.0)
    assert s.times(s.times(a, b), c) == s.times(a, s.times(b, c))


def prob_times_comm(s: P, a: "Float", b: "Float"):
    requires(0.0 <= a <= 1.0 and 0.0 <= b <= 1.0)
    assert s.times(a, b) == s.times(b, a)


def prob_identities(s: P, a: "Float"):
    requires(0.0 <= a <= 1.0)
    assert s.plus(a, s.zero()) == a
    assert s.plus(s.zero(), a) == a
    assert s.times(a, s.one()) == a
    assert s.times(s.one(), a) == a
    assert s.times(a, s.zero()) == s.zero()
    assert s.times(s.zero(), a) == s.zero()


def prob_distrib(s: P, a: "Float", b: "Float", c: "Float"):
    requires(0.0 <= a <= 1.0 and 0.0 <= b <= 1.0 and 0.0 <= c <= 1.0)
    assert s.times(a, s.plus(b, c)) == s.plus(s.times(a, b), s.times(a, c))
    assert s.times(s.plus(b, c), a) == s.plus(s.times(b, a), s.times(c, a))


def prob_defaults(s: P, a: "Float"):
    requires(0.0 <= a <= 1.0)
    assert s.is_one(s.one())
    assert s.is_zero(s.zero())
    assert not s.is_one(s.zero())
    assert not s.is_zero(s.one())
    assert s.normalize(a, s.one()) == a
    assert s.negate(a) == 1.0 - a
    assert s.in_domain(a)
    assert s.in_domain(s.negate(a))
    assert s.result(a) == a
    assert s.value(a) == a
    assert s.pos_value(a) == a
    assert s.neg_value(a) == 1.0 - a


def prob_normalize(s: P, a: "Float", z: "Float"):
    requires(0.0 <= a <= z and 0.0 < z <= 1.0)
    n = s.normalize(a, z)
    assert 0.0 <= n <= 1.0
    assert s.times(n, z) == a


# ad_complement is the one method with a loop: contract on the inherited Semiring.ad_complement,
# verified for the probability instance (plus/zero/negate inlined from SemiringProbability).
S.fn("problog.evaluator:Semiring.ad_complement",
     types={"self": "P", "ws": "List[Float]", "key": "None"},
     returns="Float",
     requires=["forall(lambda i: implies(0 <= i < len(ws), 0.0 <= ws[i] <= 1.0))"],
     loops={0: loop(index="k", invariant=["s == sumf(ws, k)", "isfinite(s)"])},
     ensures=["result == 1.0 - sumf(ws, len(ws))"])

# ---------------------------------------------------------------- log-probability semiring
# log-space is the logarithmic image of probability space: exp is a homomorphism.
LOGDOM = "a < float('inf')"
S.fn("problog.evaluator:SemiringLogProbability.plus", types={"a": "Float", "b": "Float"}, returns="Float",
     requires=["a < float('inf')", "b < float('inf')"],
     ensures=["math.exp(result) == math.exp(a) + math.exp(b)", "result < float('inf')"])
S.fn("problog.evaluator:SemiringLogProbability.times", types={"a": "Float", "b": "Float"}, returns="Float",
     requires=["a < float('inf')", "b < float('inf')"],
     ensures=["math.exp(result) == math.exp(a) * math.exp(b)", "result < float('inf')"])
S.fn("problog.evaluator:SemiringLogProbability.negate", types={"a": "Float"}, returns="Float",
     raises={"InvalidValue": "a > 1e-12"},          # log-probabilities above 0 (beyond tolerance) are rejected
     ensures=["a <= 1e-12",
              "implies(a <= -1e-10, math.exp(result) == 1.0 - math.exp(a))",
              # tolerance window of the code: exp(a) > 1 - 1e-10, answer is exactly 0
              "implies(a > -1e-10, math.exp(result) == 0.0 and 1.0 - math.exp(a) < 1e-10)",
              "result <= 0.0"])
S.fn("problog.evaluator:SemiringLogProbability.normalize", types={"a": "Float", "z": "Float"}, returns="Float",
     requires=["a <= z", "z <= 0.0", "float('-inf') < z"],
     ensures=["math.exp(result) * math.exp(z) == math.exp(a)", "result <= 0.0"])
S.fn("problog.evaluator:SemiringLogProbability.value", types={"a": "Float"}, returns="Float",
     requires=["isfinite(a)"],
     raises={"InvalidValue": "a < -1e-9 or a > 1.0 + 1e-9"},
     ensures=["-1e-9 <= a <= 1.0 + 1e-9",
              "implies(a >= 1e-9, math.exp(result) == a)",
              "implies(a < 1e-9, math.exp(result) == 0.0)",      # values below 1e-9 are flushed to 0
              "implies(a <= 1.0, result <= 0.0)"])
S.fn("problog.evaluator:SemiringLogProbability.result", types={"a": "Float", "formula": "None"}, returns="Float",
     requires=["a < float('inf')"], ensures=["result == math.exp(a)"])


def log_identities(s: L, a: "Float"):
    requires(a <= 0.0)
    assert s.is_one(s.one())
    assert s.is_zero(s.zero())
    assert not s.is_one(s.zero())
    assert not s.is_zero(s.one())
    assert math.exp(s.one()) == 1.0
    assert math.exp(s.zero()) == 0.0
    assert s.in_domain(a)


def log_plus_comm(s: L, a: "Float", b: "Float"):
    requires(a <= 0.0 and b <= 0.0)
    assert math.exp(s.plus(a, b)) == math.exp(s.plus(b, a))


def log_plus_assoc(s: L, a: "Float", b: "Float", c: "Float"):
    requires(a <= 0.0 and b <= 0.0 and c <= 0.0)
    assert math.exp(s.plus(s.plus(a, b), c)) == math.exp(s.plus(a, s.plus(b, c)))


def log_times_assoc_comm(s: L, a: "Float", b: "Float", c: "Float"):
    requires(a <= 0.0 and b <= 0.0 and c <= 0.0)
    assert s.times(a, b) == s.times(b, a)
    assert s.times(s.times(a, b), c) == s.times(a, s.times(b, c))


def log_distrib(s: L, a: "Float", b: "Float", c: "Float"):
    requires(a <= 0.0 and b <= 0.0 and c <= 0.0)
    assert math.exp(s.times(a, s.plus(b, c))) == math.exp(s.plus(s.times(a, b), s.times(a, c)))


def log_unit_laws(s: L, a: "Float"):
    requires(a <= 0.0)
    assert math.exp(s.plus(a, s.zero())) == math.exp(a)
    assert math.exp(s.times(a, s.one())) == math.exp(a)
    assert math.exp(s.times(a, s.zero())) == 0.0


def log_image_of_prob(s: L, p: P, x: "Float", y: "Float"):
    """value/plus/times/negate of log-space correspond to probability space."""
    requires(1e-9 <= x <= 1.0 and 1e-9 <= y <= 1.0)
    lx = s.value(x)
    ly = s.value(y)
    assert math.exp(s.times(lx, ly)) == p.times(p.value(x), p.value(y))
    assert math.exp(s.plus(lx, ly)) == p.plus(p.value(x), p.value(y))
    assert s.result(lx) == p.result(p.value(x))


# ---------------------------------------------------------------- MPE state semirings
def mpe_laws(s: M, a: St, b: St, c: St):
    requires(0.0 <= a[0] <= 1.0 and 0.0 <= b[0] <= 1.0 and 0.0 <= c[0] <= 1.0)
    # plus is max on the probability component (ties keep the left operand: stated tie-break)
    assert s.plus(a, b)[0] == (a[0] if a[0] >= b[0] else b[0])
    assert s.plus(a, b)[0] == s.plus(b, a)[0]
    assert s.plus(s.plus(a, b), c)[0] == s.plus(a, s.plus(b, c))[0]
    assert s.plus(a, b) == a or s.plus(a, b) == b
    # times multiplies and unions
    assert s.times(a, b) == s.times(b, a)
    assert s.times(s.times(a, b), c) == s.times(a, s.times(b, c))
    assert s.times(a, s.one()) == a
    assert s.times(a, s.zero())[0] == 0.0
    assert s.plus(a, s.zero())[0] == a[0]
    # distributivity on the probability component
    assert s.times(a, s.plus(b, c))[0] == s.plus(s.times(a, b), s.times(a, c))[0]


def minpe_laws(s: MN, a: St, b: St, c: St):
    requires(0.0 <= a[0] <= 1.0 and 0.0 <= b[0] <= 1.0 and 0.0 <= c[0] <= 1.0)
    # plus is min over the non-zero probabilities (zero is the identity)
    assert s.plus(a, s.zero())[0] == a[0]
    assert s.plus(s.zero(), a)[0] == a[0]
    assert s.plus(a, b)[0] == s.plus(b, a)[0]
    assert s.plus(s.plus(a, b), c)[0] == s.plus(a, s.plus(b, c))[0]
    assert implies(a[0] > 0.0 and b[0] > 0.0, s.plus(a, b)[0] == (a[0] if a[0] <= b[0] else b[0]))
    assert s.times(a, s.one()) == a


for f in (base_is_one_of_one, base_is_zero_of_zero, base_normalize_by_one,
          prob_plus_assoc, prob_plus_comm, prob_times_assoc, prob_times_comm, prob_identities, prob_distrib,
          prob_defaults, prob_normalize,
          log_identities, log_plus_comm, log_plus_assoc, log_times_assoc_comm, log_distrib, log_unit_laws,
          log_image_of_prob):
    S.lemma(f, module="problog.evaluator")
for f in (mpe_laws, minpe_laws):
    S.lemma(f, module="problog.tasks.mpe")

S.unverified("SemiringSymbolic: the laws hold only modulo evaluation of the produced expression string; "
             "checked by the bounded stand-in bounded/c12_symbolic.py, never counted as proved")
S.unverified("SemiringLogProbability.ad_complement (fold of log-space plus): covered by the contracts of "
             "plus and negate; the fold itself is verified only for the probability instance")


# ---------------------------------------------------------------- native replay witnesses
def _user_semiring(info, builder):
    """A user-defined semiring that defines only one/zero/plus/times (the documented minimum)."""
    from problog.evaluator import Semiring

    class UserSemiring(Semiring):
        def one(self):
            return "ONE"

        def zero(self):
            return "ZERO"

        def plus(self, a, b):
            return "(%s+%s)" % (a, b)

        def times(self, a, b):
            return "(%s*%s)" % (a, b)
    return UserSemiring()


NATIVE_REF = {"Semiring": _user_semiring}


def bounded(tier, seed):
    from bounded import c12
    return c12.run(tier, seed)
