"""C23 — k-best anytime bounds are sound and tight on completion (bounded stand-in: bounded/c23.py)."""
from pyvc.dsl import *

S = Spec("C23", "k-best anytime bounds are sound and tight on completion")
LEVEL = "exploration"
S.unverified("everything: bounded run-time contract only")


def bounded(tier, seed):
    from bounded import c23
    return c23.run("C23", tier, seed)
