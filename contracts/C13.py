"""C13 — deterministic programs agree with standard Prolog, including findall order (bounded stand-in only;
see bounded/c13.py: independent SLD interpreter and bottom-up evaluator as references)."""
from pyvc.dsl import *

S = Spec("C13", "Deterministic programs agree with standard Prolog, including findall order")
LEVEL = "exploration"
S.unverified("everything: bounded run-time contract only (ClauseIndex.find was repaired; a contract-level proof of it "
             "on top of the C34 OrderedSet contracts needs the MutableSet mix-ins, not built)")


def bounded(tier, seed):
    from bounded import c13
    return c13.run("C13", tier, seed)
