"""C24 — Learning from interpretations is a monotone EM producing valid parameters (bounded stand-in: bounded/c24.py,
a two-state contract on LFIProblem.step iterated on the real object)."""
from pyvc.dsl import *

S = Spec("C24", "Learning from interpretations is a monotone EM producing valid parameters")
LEVEL = "exploration"
S.unverified("everything: bounded run-time contract only")


def bounded(tier, seed):
    from bounded import c24
    return c24.run("C24", tier, seed)
