"""C01 — exact inference computes the distribution semantics (bounded stand-in only).

No proof-level contract is within reach of the verifier for the tabled grounding engine (engine_stack.py,
eval_nodes.py: message passing over a shared stack with cycles); its function-level ingredients are proved
under C09-C13, C30.  The contract here is a run-time post-condition on the top-level function
get_evaluatable().create_from(PrologString(src)).evaluate(), evaluated on a bounded program family against
an executable possible-world specification (bounded/pw.py).  Labelled bounded, never counted as proved.
"""
from pyvc.dsl import *

S = Spec("C01", "Exact inference computes the distribution semantics")
LEVEL = "exploration"
S.unverified("everything: bounded run-time contract on the top-level inference function only")


def bounded(tier, seed):
    from bounded import c01
    return c01.run(tier, seed, "C01")
