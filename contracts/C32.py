"""C32 — Weighted selection library predicates define the documented distribution (bounded stand-in: bounded/c32.py).
library(lists) is Prolog text (lists.pl): select_weighted / sw / sw_p have no Python body to put under contract."""
from pyvc.dsl import *

S = Spec("C32", "Weighted selection library predicates define the documented distribution")
LEVEL = "exploration"
S.unverified("everything: bounded run-time contract only (the library is Prolog text)")


def bounded(tier, seed):
    from bounded import c32
    return c32.run("C32", tier, seed)
