"""C34 — utility containers behave as their abstract models (UHeap, BitVector, OrderedSet)."""
from pyvc.dsl import *

S = Spec("C34", "Utility containers behave as their abstract models")
S.alias("Elem", "Ord[Elem]")          # items and keys: an abstract sort with a total order
S.alias("KeyFn", "Abs[KeyFn]")
S.abs_call_result = {"KeyFn": "Elem"}
# the key= callable reads mutable state (that is why push can *update* a key): each call returns an
# unconstrained value; contracts refer to the value of the latest call as lastcall('KeyFn')
S.abs_call_impure = ("KeyFn",)
S.assume("UHeap: Python's < / > / == on the key type form a total order; the key= callable terminates and does "
         "not touch the heap; items are hashable with == consistent with hash (dict model)")

# =============================================================================== UHeap
LE = "lambda p, c: self._heap[p][0] <= self._heap[c][0]"
S.cls("problog.util:UHeap",
      fields={"_heap": "List[Tuple[Elem,Elem]]", "_index": "Dict[Elem,Int]", "_key": "Opt[KeyFn]"},
      defs=dict(
          n="len(self._heap)",
          LE=LE,
          # index table is the inverse of the heap array
          IC="len(self._index) == len(self._heap)"
             " and forall(lambda i: implies(0 <= i < len(self._heap),"
             "   self._heap[i][1] in self._index and self._index[self._heap[i][1]] == i))"
             " and forall(lambda x: implies(x in self._index,"
             "   0 <= self._index[x] < len(self._heap) and self._heap[self._index[x]][1] == x), 'Elem')",
          HEAP="forall(lambda i: implies(0 < i < len(self._heap), LE((i - 1) // 2, i)))",
          # abstract view: finite map item -> key
          has="lambda x: x in self._index",
          view="lambda x: self._heap[self._index[x]][0]",
          SAMEVIEW="forall(lambda x: (x in self._index) == old(x in self._index)"
                   " and implies(x in self._index, view(x) == old(view(x))), 'Elem')",
      ))

S.fn("problog.util:UHeap.__len__", returns="Int", inline=True)
S.fn("problog.util:UHeap._parent", types={"index": "Int"}, inline=True)
S.fn("problog.util:UHeap._children", types={"index": "Int"}, inline=True)
S.fn("problog.util:UHeap._compute_key", types={"item": "Elem"}, inline=True)

S.fn("problog.util:UHeap._swap", types={"index1": "Int", "index2": "Int"},
     requires=["IC", "0 <= index1 < n", "0 <= index2 < n"],
     modifies=["self._heap", "self._index"],
     ensures=["IC", "n == old(n)",
              "self._heap[index1] == old(self._heap[index2])",
              "self._heap[index2] == old(self._heap[index1])",
              "forall(lambda i: implies(0 <= i < n and i != index1 and i != index2,"
              " self._heap[i] == old(self._heap[i])))",
              "SAMEVIEW"])

S.fn("problog.util:UHeap._swim_up", types={"index": "Int"},
     decreases="index",
     requires=["IC", "0 <= index < n",
               # heap everywhere except between `index` and its parent
               "forall(lambda i: implies(0 < i < n and i != index, LE((i - 1) // 2, i)))",
               # grandparent <= children of index (so that moving index up keeps order below it)
               "forall(lambda c: implies(0 < c < n and (c - 1) // 2 == index and index > 0,"
               " LE((index - 1) // 2, c)))"],
     modifies=["self._heap", "self._index"],
     ensures=["IC", "HEAP", "n == old(n)", "SAMEVIEW"])

S.fn("problog.util:UHeap._sink_down", types={"index": "Int"},
     decreases="n - index",
     requires=["IC", "0 <= index < n",
               # heap everywhere except between `index` and its children
               "forall(lambda i: implies(0 < i < n and (i - 1) // 2 != index, LE((i - 1) // 2, i)))",
               "forall(lambda c: implies(0 < c < n and (c - 1) // 2 == index and index > 0,"
               " LE((index - 1) // 2, c)))"],
     modifies=["self._heap", "self._index"],
     ensures=["IC", "HEAP", "n == old(n)", "SAMEVIEW"])

S.fn("problog.util:UHeap.push", types={"item": "Elem"}, returns="Bool",
     requires=["IC", "HEAP"],
     modifies=["self._heap", "self._index"],
     ensures=["IC", "HEAP",
              "result == (not old(item in self._index))",
              "forall(lambda x: (x in self._index) == (old(x in self._index) or x == item), 'Elem')",
              # the item's key is the key computed by this call (the item itself without key=)
              "implies(self._key is None, view(item) == item)",
              "implies(self._key is not None, view(item) == lastcall('KeyFn'))",
              "forall(lambda x: implies(old(x in self._index) and x != item, view(x) == old(view(x))), 'Elem')"])

S.fn("problog.util:UHeap.pop_with_key", returns="Tuple[Elem,Elem]",
     requires=["IC", "HEAP", "n > 0"],
     modifies=["self._heap", "self._index"],
     ensures=["IC", "HEAP",
              "old(result[1] in self._index)", "old(view(result[1])) == result[0]",
              # the returned key is minimal: uses lemma root_is_min
              "forall(lambda x: implies(old(x in self._index), result[0] <= old(view(x))), 'Elem')",
              "forall(lambda x: (x in self._index) == (old(x in self._index) and x != result[1]), 'Elem')",
              "forall(lambda x: implies(x in self._index, view(x) == old(view(x))), 'Elem')",
              "n == old(n) - 1"],
     use=["root_is_min"])

S.fn("problog.util:UHeap.pop", returns="Elem",
     requires=["IC", "HEAP", "n > 0"],
     modifies=["self._heap", "self._index"],
     ensures=["IC", "HEAP", "old(result in self._index)",
              "forall(lambda x: implies(old(x in self._index), old(view(result)) <= old(view(x))), 'Elem')",
              "forall(lambda x: (x in self._index) == (old(x in self._index) and x != result), 'Elem')",
              "forall(lambda x: implies(x in self._index, view(x) == old(view(x))), 'Elem')"])

S.fn("problog.util:UHeap.peek", returns="Elem",
     requires=["IC", "HEAP", "n > 0"],
     ensures=["result in self._index",
              "forall(lambda x: implies(x in self._index, view(result) <= view(x)), 'Elem')"],
     use=["root_is_min"])

S.fn("problog.util:UHeap.__init__", types={"key": "Opt[KeyFn]"},
     modifies=["self._heap", "self._index", "self._key"],
     ensures=["IC", "HEAP", "n == 0", "forall(lambda x: not (x in self._index), 'Elem')"])


def root_is_min(self: "Ref[UHeap]", i: "Int"):
    """Induction on i: heap order along the parent chain gives heap[0] <= heap[i]."""
    if i > 0:
        root_is_min(self, (i - 1) // 2)


S.lemma_fn(root_is_min, cls="UHeap", module="problog.util",
           requires=["HEAP", "0 <= i < n"], ensures=["LE(0, i)"], decreases="i")


# =============================================================================== BitVector
# view: the set {32*b + i | bit i of blocks[b] is set};  M(o, j) is "j is a member of o".
S.global_defs = dict(
    M="lambda o, j: j >= 0 and (j >> 5) < len(o.blocks) and (o.blocks[j >> 5] & (1 << (j & 31))) != 0",
    BVI="lambda o: o.binsize_bits == 5 and o.binsize == 32 and"
        " forall(lambda t: implies(0 <= t < len(o.blocks), 0 <= o.blocks[t] < 4294967296))",
)
S.cls("problog.util:BitVector",
      fields={"binsize_bits": "Int", "binsize": "Int", "blocks": "List[Int]", "blocks_size": "List[Int]"})
S.alias("BV", "Ref[BitVector]")

S.fn("problog.util:BitVector.__init__",
     modifies=["self.binsize_bits", "self.binsize", "self.blocks", "self.blocks_size"],
     ensures=["BVI(self)", "len(self.blocks) == 0", "forall(lambda j: not M(self, j))"])

S.fn("problog.util:BitVector.add", types={"index": "Int"},
     requires=["BVI(self)", "index >= 0"],
     modifies=["self.blocks"],
     ensures=["BVI(self)",
              "forall(lambda j: M(self, j) == (old(M(self, j)) or j == index))"])

S.fn("problog.util:BitVector.__contains__", types={"index": "Int"},
     requires=["BVI(self)", "index >= 0"],
     ensures=["bool(result) == M(self, index)"])

S.fn("problog.util:BitVector.__and__", types={"other": "BV"}, returns="BV",
     requires=["BVI(self)", "BVI(other)"],
     modifies=["BitVector.binsize_bits", "BitVector.binsize", "BitVector.blocks", "BitVector.blocks_size"],
     loops={0: loop(index="k", invariant=[
         "BVI(result)", "result is not self", "result is not other", "len(result.blocks) == k",
         "forall(lambda t: implies(0 <= t < k, result.blocks[t] == self.blocks[t] & other.blocks[t]))",
         "self.blocks == old(self.blocks)", "other.blocks == old(other.blocks)",
         "BVI(self)", "BVI(other)"])},
     ensures=["BVI(result)", "result is not self", "result is not other",
              "forall(lambda j: M(result, j) == (old(M(self, j)) and old(M(other, j))))",
              "forall(lambda j: M(self, j) == old(M(self, j)))", "forall(lambda j: M(other, j) == old(M(other, j)))"])

S.fn("problog.util:BitVector.__iand__", types={"other": "BV"}, returns="BV",
     requires=["BVI(self)", "BVI(other)"],
     modifies=["self.blocks"],
     loops={0: loop(index="k", invariant=[
         "len(self.blocks) == old(len(self.blocks))",
         "forall(lambda t: implies(0 <= t < k, self.blocks[t] == old(self.blocks[t]) & old(other.blocks[t])))",
         "forall(lambda t: implies(k <= t < len(self.blocks), self.blocks[t] == old(self.blocks[t])))",
         "other is self or other.blocks == old(other.blocks)",
         "self.binsize_bits == 5 and self.binsize == 32"])},
     ensures=["result is self", "BVI(self)",
              "forall(lambda j: M(self, j) == (old(M(self, j)) and old(M(other, j))))"])

S.fn("problog.util:BitVector.__or__", types={"other": "BV"}, returns="BV",
     requires=["BVI(self)", "BVI(other)"],
     modifies=["BitVector.binsize_bits", "BitVector.binsize", "BitVector.blocks", "BitVector.blocks_size"],
     loops={0: loop(index="k", invariant=[
         "BVI(result)", "result is not self", "result is not other", "len(result.blocks) == k",
         "forall(lambda t: implies(0 <= t < k, result.blocks[t] == self.blocks[t] | other.blocks[t]))",
         "self.blocks == old(self.blocks)", "other.blocks == old(other.blocks)",
         "BVI(self)", "BVI(other)"])},
     ensures=["BVI(result)", "result is not self", "result is not other",
              "forall(lambda j: M(result, j) == (old(M(self, j)) or old(M(other, j))))",
              "forall(lambda j: M(self, j) == old(M(self, j)))", "forall(lambda j: M(other, j) == old(M(other, j)))"])

S.fn("problog.util:BitVector.__ior__", types={"other": "BV"}, returns="BV",
     requires=["BVI(self)", "BVI(other)"],
     modifies=["self.blocks"],
     loops={0: loop(index="k", invariant=[
         "len(self.blocks) == old(len(self.blocks))",
         "forall(lambda t: implies(0 <= t < k, self.blocks[t] == old(self.blocks[t]) | old(other.blocks[t])))",
         "forall(lambda t: implies(k <= t < len(self.blocks), self.blocks[t] == old(self.blocks[t])))",
         "other is self or other.blocks == old(other.blocks)",
         "self.binsize_bits == 5 and self.binsize == 32"])},
     ensures=["result is self", "BVI(self)",
              "forall(lambda j: M(self, j) == (old(M(self, j)) or old(M(other, j))))"])

S.recfun("sumpop", [("bs", "List[Int]"), ("k", "Int")], "Int", "0 if k <= 0 else sumpop(bs, k - 1) + popcount(bs[k - 1])")
S.fn("problog.util:BitVector.__len__", returns="Int",
     requires=["BVI(self)"],
     loops={0: loop(index="k", invariant=["n == sumpop(self.blocks, k)", "n >= 0",
                                          "popcount(0) == 0"])},      # (axiom of the shared symbol, made available to the step)
     # the number of members: the sum over the blocks of the number of set bits
     ensures=["result == sumpop(self.blocks, len(self.blocks))"])

S.fn("problog.util:BitVector.__bool__", returns="Bool",
     requires=["BVI(self)"],
     loops={0: loop(index="k", invariant=["forall(lambda t: implies(0 <= t < k, self.blocks[t] == 0))"])},
     # non-empty exactly when some block is non-zero (a block is non-zero iff it has a member: lemma nonzero_block_has_bit)
     ensures=["result == exists(lambda t: 0 <= t < len(self.blocks) and self.blocks[t] != 0)"])

# =============================================================================== OrderedSet
# The cells are 3-element Python lists [key, prev, next] that alias each other: heap records.
# Ghost view: g_cells = the cells in ring order (so order(i) = g_cells[i][0] is the iteration
# order), g_pos = position of every key.  Every postcondition states the whole new view.
S.alias("K", "Abs[K]")
S.rec("Cell", **{"0": "Opt[K]", "1": "Ref[Cell]", "2": "Ref[Cell]"})
S.assume("OrderedSet: cells are 3-element lists [key, prev, next]; keys are hashable with == consistent with hash")
S.cls("problog.util:OrderedSet",
      fields={"end": "Ref[Cell]", "map": "Dict[K,Ref[Cell]]"},
      ghost={"g_cells": "List[Ref[Cell]]", "g_pos": "Dict[K,Int]"},
      defs=dict(
          m="len(self.g_cells)",
          okey="lambda i: unwrap(self.g_cells[i][0])",
          WF="len(self.map) == m and self.end[0] is None and allocated(self.end)"
             " and forall(lambda i: implies(0 <= i < m, self.g_cells[i] is not self.end and allocated(self.g_cells[i])"
             "       and self.g_cells[i][0] is not None))"
             " and (self.end[1] is self.end and self.end[2] is self.end if m == 0 else"
             "      self.end[2] is self.g_cells[0] and self.end[1] is self.g_cells[m - 1]"
             "      and self.g_cells[0][1] is self.end and self.g_cells[m - 1][2] is self.end)"
             " and forall(lambda i: implies(0 <= i < m - 1, self.g_cells[i][2] is self.g_cells[i + 1]"
             "       and self.g_cells[i + 1][1] is self.g_cells[i]))"
             " and forall(lambda i: implies(0 <= i < m, okey(i) in self.map and self.map[okey(i)] is self.g_cells[i]"
             "       and self.g_pos[okey(i)] == i))"
             " and forall(lambda k: implies(k in self.map, 0 <= self.g_pos[k] < m"
             "       and okey(self.g_pos[k]) == k), 'K')",
          SAMEORDER="m == old(m) and forall(lambda i: implies(0 <= i < m, okey(i) == old(okey(i))))",
      ))
OSET = dict(alloc_as={0: "Cell", 3: "Cell"})

S.fn("problog.util:OrderedSet.__init__", types={"iterable": "None"},
     modifies=["self.end", "self.map", "Cell.*"],
     ghost_exit={"g_cells": "typed([], 'List[Ref[Cell]]')", "g_pos": "old(self.g_pos)"},
     ensures=["WF", "m == 0"], dead_ok=["self |= iterable"], **OSET)

S.fn("problog.util:OrderedSet.__len__", returns="Int", requires=["WF"], ensures=["result == m"])
S.fn("problog.util:OrderedSet.__contains__", types={"key": "K"}, returns="Bool", requires=["WF"],
     ensures=["result == exists(lambda i: 0 <= i < m and okey(i) == key)"])

S.fn("problog.util:OrderedSet.add", types={"key": "K"},
     requires=["WF"],
     modifies=["self.map", "Cell.*"],
     ghost_exit={
         "g_cells": "old(self.g_cells) if old(key in self.map) else old(self.g_cells) + [self.map[key]]",
         "g_pos": "old(self.g_pos) if old(key in self.map) else store(old(self.g_pos), key, old(m))"},
     ensures=["WF",
              # whole new view: unchanged if present, else old order followed by key
              "implies(old(key in self.map), SAMEORDER)",
              "implies(not old(key in self.map), m == old(m) + 1 and okey(m - 1) == key"
              " and forall(lambda i: implies(0 <= i < m - 1, okey(i) == old(okey(i)))))"],
     **OSET)

S.fn("problog.util:OrderedSet.discard", types={"key": "K"},
     requires=["WF"],
     modifies=["self.map", "Cell.*"],
     ghost_exit={
         "g_cells": "list_remove(old(self.g_cells), old(self.g_pos[key])) if old(key in self.map) else old(self.g_cells)",
         "g_pos": "shift_down(old(self.g_pos), old(self.g_pos[key])) if old(key in self.map) else old(self.g_pos)"},
     at=[("self.map.pop(key)", "0 <= old(self.g_pos[key]) < old(m)"),
         ("self.map.pop(key)", "old(self.g_cells[self.g_pos[key]]) is old(self.map[key])"),
         ("self.map.pop(key)", "prv is (self.end if old(self.g_pos[key]) == 0 else old(self.g_cells[self.g_pos[key] - 1]))"),
         ("self.map.pop(key)", "nxt is (self.end if old(self.g_pos[key]) == old(m) - 1 else old(self.g_cells[self.g_pos[key] + 1]))")],
     ensures=["WF",
              "implies(not old(key in self.map), SAMEORDER)",
              "implies(old(key in self.map), m == old(m) - 1"
              " and forall(lambda i: implies(0 <= i < m, okey(i) == (old(okey(i)) if i < old(self.g_pos[key]) else old(okey(i + 1))))))"],
     **OSET)

S.fn("problog.util:OrderedSet.__iter__", yields="List[Opt[K]]",
     requires=["WF"],
     loops={0: loop(ghost={"j": ("0", "j + 1")},
                    invariant=["0 <= j <= m", "curr is (self.g_cells[j] if j < m else self.end)",
                               "len(yielded) == j",
                               "forall(lambda i: implies(0 <= i < j, yielded[i] == self.g_cells[i][0]))"],
                    decreases="m - j")},
     ensures=["len(result) == m", "forall(lambda i: implies(0 <= i < m, result[i] == self.g_cells[i][0]))"])

S.fn("problog.util:OrderedSet.__reversed__", yields="List[Opt[K]]",
     requires=["WF"],
     loops={0: loop(ghost={"j": ("0", "j + 1")},
                    invariant=["0 <= j <= m", "curr is (self.g_cells[m - 1 - j] if j < m else self.end)",
                               "len(yielded) == j",
                               "forall(lambda i: implies(0 <= i < j, yielded[i] == self.g_cells[m - 1 - i][0]))"],
                    decreases="m - j")},
     ensures=["len(result) == m", "forall(lambda i: implies(0 <= i < m, result[i] == self.g_cells[m - 1 - i][0]))"])

S.fn("problog.util:OrderedSet.pop", types={"last": "Bool"}, returns="Opt[K]",
     requires=["WF"],
     raises={"KeyError": "m == 0"},
     modifies=["self.map", "Cell.*", "self.g_cells", "self.g_pos"],
     ensures=["WF", "old(m) > 0", "m == old(m) - 1",
              "result == (old(self.g_cells[m - 1][0]) if last else old(self.g_cells[0][0]))",
              "forall(lambda i: implies(0 <= i < m, okey(i) == (old(okey(i)) if last else old(okey(i + 1)))))"])

# =============================================================================== native side
# Bounded stand-in / counter-example search: recipes are JSON; inputs are rebuilt deterministically
# from a recipe with the *real* classes.  Bounds: heaps of <= 9 items, keys/items in 0..11.
class _Keys(object):
    """A key= callable whose answers change over time (that is what makes push an update)."""

    def __init__(self):
        self.k = {}
        self.last = None

    def __call__(self, item):
        self.last = _LAST[0] = self.k.get(item, item)
        return self.last


def _mk_heap(recipe):
    from problog.util import UHeap
    import pyvc.native as N
    keys = _Keys() if recipe.get("keyfn") else None
    h = UHeap(key=keys)
    for op in recipe["ops"]:
        if op[0] == "set" and keys is not None:
            keys.k[op[1]] = op[2]
        elif op[0] == "push":
            h.push(op[1])
        elif op[0] == "pop" and len(h):
            h.pop()
    if keys is not None:
        for it, k in recipe.get("final_keys", []):
            keys.k[it] = k
    N.UNIVERSE["Elem"] = set(range(-1, 13))
    return h, keys


def native_build(qual, recipe):
    name = qual.split(":")[1]
    if name.startswith("UHeap."):
        h, keys = _mk_heap(recipe)
        m = name.split(".")[1]
        if m == "__init__":
            from problog.util import UHeap
            return dict(self=object.__new__(UHeap), key=keys)
        if m in ("_swim_up", "_sink_down"):
            i = recipe["index"]
            if not 0 <= i < len(h._heap):
                raise Skip()
            k, it = h._heap[i]
            h._heap[i] = (recipe["newkey"], it)       # perturb one key: heap except at index
            return dict(self=h, index=i)
        if m == "_swap":
            return dict(self=h, index1=recipe["i"], index2=recipe["j"])
        if m == "push":
            return dict(self=h, item=recipe["item"])
        return dict(self=h)
    if name.startswith("OrderedSet."):
        from problog.util import OrderedSet
        import pyvc.native as N
        m = name.split(".")[1]
        N.UNIVERSE["K"] = set(range(-1, 9))
        if m == "__init__":
            return dict(self=object.__new__(OrderedSet), iterable=None)
        s = OrderedSet()
        for op in recipe["ops"]:
            if op[0] == "add":
                s.add(op[1])
            elif op[0] == "discard":
                s.discard(op[1])
            elif op[0] == "pop" and len(s.map):
                s.pop(op[1])
        if m in ("add", "discard", "__contains__"):
            return dict(self=s, key=recipe["key"])
        if m == "pop":
            return dict(self=s, last=recipe["last"])
        return dict(self=s)
    if name.startswith("BitVector."):
        from problog.util import BitVector
        m = name.split(".")[1]
        if m == "__init__":
            return dict(self=object.__new__(BitVector))

        def mk(xs):
            v = BitVector()
            for x in xs:
                v.add(x)
            return v
        a = mk(recipe["a"])
        if m in ("add", "__contains__"):
            return dict(self=a, index=recipe["index"])
        if m in ("__bool__", "__len__"):
            return dict(self=a)
        other = a if recipe.get("same") else mk(recipe["b"])
        return dict(self=a, other=other)
    raise Skip()


def native_cases(qual, rng):
    name = qual.split(":")[1]
    if name.startswith("OrderedSet."):
        # bounds: keys 0..7, at most 10 operations before the call
        for _ in range(100000):
            ops = []
            for _ in range(rng.randint(0, 10)):
                r = rng.random()
                ops.append(["add", rng.randint(0, 7)] if r < 0.65 else
                           (["discard", rng.randint(0, 7)] if r < 0.9 else ["pop", rng.random() < 0.5]))
            yield dict(ops=ops, key=rng.randint(0, 7), last=rng.random() < 0.5)
        return
    if name.startswith("BitVector."):
        # bounds: members below 200 (7 blocks), at most 8 members per vector
        for _ in range(100000):
            hi = rng.choice([5, 40, 70, 200])
            yield dict(a=[rng.randint(0, hi) for _ in range(rng.randint(0, 8))],
                       b=[rng.randint(0, rng.choice([5, 40, 70, 200])) for _ in range(rng.randint(0, 8))],
                       index=rng.randint(0, hi + 40), same=rng.random() < 0.1)
        return
    if not name.startswith("UHeap."):
        return
    m = name.split(".")[1]
    for _ in range(100000):
        ops = []
        keyfn = rng.random() < 0.6
        for _ in range(rng.randint(0, 12)):
            r = rng.random()
            if r < 0.25 and keyfn:
                ops.append(["set", rng.randint(0, 9), rng.randint(0, 11)])
            elif r < 0.85:
                ops.append(["push", rng.randint(0, 9)])
            else:
                ops.append(["pop"])
        rec = dict(ops=ops, keyfn=keyfn)
        if m in ("_swim_up", "_sink_down"):
            rec.update(index=rng.randint(0, 8), newkey=rng.randint(-1, 12))
        elif m == "_swap":
            rec.update(i=rng.randint(0, 8), j=rng.randint(0, 8))
        elif m == "push":
            pushed = [o[1] for o in ops if o[0] == "push"]
            item = rng.choice(pushed) if pushed and rng.random() < 0.75 else rng.randint(0, 9)
            # re-push of an existing item after its key changed (up or down) is the interesting case
            rec.update(item=item, final_keys=[[item, rng.randint(-1, 12)], [rng.randint(0, 9), rng.randint(0, 11)]])
        yield rec


def native_ghost(vals):
    """Ghost fields of OrderedSet objects, recomputed from the concrete ring (bounded walk)."""
    for v in vals.values():
        if type(v).__name__ == "OrderedSet" and hasattr(v, "end"):
            cells, cur, steps = [], v.end[2] if len(v.end) == 3 else v.end, 0
            while cur is not v.end and steps <= len(v.map) + 2:
                cells.append(cur)
                cur = cur[2]
                steps += 1
            v.g_cells = cells
            v.g_pos = dict((c[0], i) for i, c in enumerate(cells))


_LAST = [None]


def _lastcall(sortname):
    return _LAST[0]


NATIVE_SPEC = {"lastcall": _lastcall, "popcount": lambda x: bin(x).count("1")}
