"""C34 — utility containers behave as their abstract models (UHeap, BitVector, OrderedSet)."""
from pyvc.dsl import *

S = Spec("C34", "Utility containers behave as their abstract models")
S.alias("Elem", "Ord[Elem]")          # items and keys: an abstract sort with a total order
S.alias("KeyFn", "Abs[KeyFn]")
S.abs_call_result = {"KeyFn": "Elem"}
# the key= callable reads mutable state (that is why push can *update* a key): each call returns an
# unconstrained value; contracts refer to the value of the latest call as lastcall('KeyFn')
S.abs_call_impure = ("KeyFn",)
S.assume("UHeap: Python's < / > / == on the key type form a total order; the key= callable terminates and does "
         "not touch the heap; items are hashable with == consistent with hash (dict model)")

# =============================================================================== UHeap
LE = "lambda p, c: self._heap[p][0] <= self._heap[c][0]"
S.cls("problog.util:UHeap",
      fields={"_heap": "List[Tuple[Elem,Elem]]", "_index": "Dict[Elem,Int]", "_key": "Opt[KeyFn]"},
      defs=dict(
          n="len(self._heap)",
          LE=LE,
          # index table is the inverse of the heap array
          IC="len(self._index) == len(self._heap)"
             " and forall(lambda i: implies(0 <= i < len(self._heap),"
             "   self._heap[i][1] in self._index and self._index[self._heap[i][1]] == i))"
             " and forall(lambda x: implies(x in self._index,"
             "   0 <= self._index[x] < len(self._heap) and self._heap[self._index[x]][1] == x), 'Elem')",
          HEAP="forall(lambda i: implies(0 < i < len(self._heap), LE((i - 1) // 2, i)))",
          # abstract view: finite map item -> key
          has="lambda x: x in self._index",
          view="lambda x: self._heap[self._index[x]][0]",
          SAMEVIEW="forall(lambda x: (x in self._index) == old(x in self._index)"
                   " and implies(x in self._index, view(x) == old(view(x))), 'Elem')",
      ))

S.fn("problog.util:UHeap.__len__", returns="Int", inline=True)
S.fn("problog.util:UHeap._parent", types={"index": "Int"}, inline=True)
S.fn("problog.util:UHeap._children", types={"index": "Int"}, inline=True)
S.fn("problog.util:UHeap._compute_key", types={"item": "Elem"}, inline=True)

S.fn("problog.util:UHeap._swap", types={"index1": "Int", "index2": "Int"},
     requires=["IC", "0 <= index1 < n", "0 <= index2 < n"],
     modifies=["self._heap", "self._index"],
     ensures=["IC", "n == old(n)",
              "self._heap[index1] == old(self._heap[index2])",
              "self._heap[index2] == old(self._heap[index1])",
              "forall(lambda i: implies(0 <= i < n and i != index1 and i != index2,"
              " self._heap[i] == old(self._heap[i])))",
              "SAMEVIEW"])

S.fn("problog.util:UHeap._swim_up", types={"index": "Int"},
     decreases="index",
     requires=["IC", "0 <= index < n",
               # heap everywhere except between `index` and its parent
               "forall(lambda i: implies(0 < i < n and i != index, LE((i - 1) // 2, i)))",
               # grandparent <= children of index (so that moving index up keeps order below it)
               "forall(lambda c: implies(0 < c < n and (c - 1) // 2 == index and index > 0,"
               " LE((index - 1) // 2, c)))"],
     modifies=["self._heap", "self._index"],
     ensures=["IC", "HEAP", "n == old(n)", "SAMEVIEW"])

S.fn("problog.util:UHeap._sink_down", types={"index": "Int"},
     decreases="n - index",
     requires=["IC", "0 <= index < n",
               # heap everywhere except between `index` and its children
               "forall(lambda i: implies(0 < i < n and (i - 1) // 2 != index, LE((i - 1) // 2, i)))",
               "forall(lambda c: implies(0 < c < n and (c - 1) // 2 == index and index > 0,"
               " LE((index - 1) // 2, c)))"],
     modifies=["self._heap", "self._index"],
     ensures=["IC", "HEAP", "n == old(n)", "SAMEVIEW"])

S.fn("problog.util:UHeap.push", types={"item": "Elem"}, returns="Bool",
     requires=["IC", "HEAP"],
     modifies=["self._heap", "self._index"],
     ensures=["IC", "HEAP",
              "result == (not old(item in self._index))",
              "forall(lambda x: (x in self._index) == (old(x in self._index) or x == item), 'Elem')",
              # the item's key is the key computed by this call (the item itself without key=)
              "implies(self._key is None, view(item) == item)",
              "implies(self._key is not None, view(item) == lastcall('KeyFn'))",
              "forall(lambda x: implies(old(x in self._index) and x != item, view(x) == old(view(x))), 'Elem')"])

S.fn("problog.util:UHeap.pop_with_key", returns="Tuple[Elem,Elem]",
     requires=["IC", "HEAP", "n > 0"],
     modifies=["self._heap", "self._index"],
     ensures=["IC", "HEAP",
              "old(result[1] in self._index)", "old(view(result[1])) == result[0]",
              # the returned key is minimal: uses lemma root_is_min
              "forall(lambda x: implies(old(x in self._index), result[0] <= old(view(x))), 'Elem')",
              "forall(lambda x: (x in self._index) == (old(x in self._index) and x != result[1]), 'Elem')",
              "forall(lambda x: implies(x in self._index, view(x) == old(view(x))), 'Elem')",
              "n == old(n) - 1"],
     use=["root_is_min"])

S.fn("problog.util:UHeap.pop", returns="Elem",
     requires=["IC", "HEAP", "n > 0"],
     modifies=["self._heap", "self._index"],
     ensures=["IC", "HEAP", "old(result in self._index)",
              "forall(lambda x: implies(old(x in self._index), old(view(result)) <= old(view(x))), 'Elem')",
              "forall(lambda x: (x in self._index) == (old(x in self._index) and x != result), 'Elem')",
              "forall(lambda x: implies(x in self._index, view(x) == old(view(x))), 'Elem')"])

S.fn("problog.util:UHeap.peek", returns="Elem",
     requires=["IC", "HEAP", "n > 0"],
     ensures=["result in self._index",
              "forall(lambda x: implies(x in self._index, view(result) <= view(x)), 'Elem')"],
     use=["root_is_min"])

S.fn("problog.util:UHeap.__init__", types={"key": "Opt[KeyFn]"},
     modifies=["self._heap", "self._index", "self._key"],
     ensures=["IC", "HEAP", "n == 0", "forall(lambda x: not (x in self._index), 'Elem')"])


def root_is_min(self: "Ref[UHeap]", i: "Int"):
    """Induction on i: heap order along the parent chain gives heap[0] <= heap[i]."""
    if i > 0:
        root_is_min(self, (i - 1) // 2)


S.lemma_fn(root_is_min, cls="UHeap", module="problog.util",
           requires=["HEAP", "0 <= i < n"], ensures=["LE(0, i)"], decreases="i")


# =============================================================================== native side
# Bounded stand-in / counter-example search: recipes are JSON; inputs are rebuilt deterministically
# from a recipe with the *real* classes.  Bounds: heaps of <= 9 items, keys/items in 0..11.
class _Keys(object):
    """A key= callable whose answers change over time (that is what makes push an update)."""

    def __init__(self):
        self.k = {}
        self.last = None

    def __call__(self, item):
        self.last = _LAST[0] = self.k.get(item, item)
        return self.last


def _mk_heap(recipe):
    from problog.util import UHeap
    import pyvc.native as N
    keys = _Keys() if recipe.get("keyfn") else None
    h = UHeap(key=keys)
    for op in recipe["ops"]:
        if op[0] == "set" and keys is not None:
            keys.k[op[1]] = op[2]
        elif op[0] == "push":
            h.push(op[1])
        elif op[0] == "pop" and len(h):
            h.pop()
    if keys is not None:
        for it, k in recipe.get("final_keys", []):
            keys.k[it] = k
    N.UNIVERSE["Elem"] = set(range(-1, 13))
    return h, keys


def native_build(qual, recipe):
    name = qual.split(":")[1]
    if name.startswith("UHeap."):
        h, keys = _mk_heap(recipe)
        m = name.split(".")[1]
        if m == "__init__":
            from problog.util import UHeap
            return dict(self=object.__new__(UHeap), key=keys)
        if m in ("_swim_up", "_sink_down"):
            i = recipe["index"]
            if not 0 <= i < len(h._heap):
                raise Skip()
            k, it = h._heap[i]
            h._heap[i] = (recipe["newkey"], it)       # perturb one key: heap except at index
            return dict(self=h, index=i)
        if m == "_swap":
            return dict(self=h, index1=recipe["i"], index2=recipe["j"])
        if m == "push":
            return dict(self=h, item=recipe["item"])
        return dict(self=h)
    raise Skip()


def native_cases(qual, rng):
    name = qual.split(":")[1]
    if not name.startswith("UHeap."):
        return
    m = name.split(".")[1]
    for _ in range(100000):
        ops = []
        keyfn = rng.random() < 0.6
        for _ in range(rng.randint(0, 12)):
            r = rng.random()
            if r < 0.25 and keyfn:
                ops.append(["set", rng.randint(0, 9), rng.randint(0, 11)])
            elif r < 0.85:
                ops.append(["push", rng.randint(0, 9)])
            else:
                ops.append(["pop"])
        rec = dict(ops=ops, keyfn=keyfn)
        if m in ("_swim_up", "_sink_down"):
            rec.update(index=rng.randint(0, 8), newkey=rng.randint(-1, 12))
        elif m == "_swap":
            rec.update(i=rng.randint(0, 8), j=rng.randint(0, 8))
        elif m == "push":
            rec.update(item=rng.randint(0, 9), final_keys=[[rng.randint(0, 9), rng.randint(0, 11)] for _ in range(2)])
        yield rec


_LAST = [None]


def _lastcall(sortname):
    return _LAST[0]


NATIVE_SPEC = {"lastcall": _lastcall}
