"""C30 — invalid probability annotations are rejected.

Proof part (weight path): the functions that turn an annotation into an internal weight raise
InvalidValue for every value outside [0,1] (beyond a tolerance), for both the probability and the
log-probability semiring; the annotated-disjunction complement is outside the semiring's domain exactly
when the head probabilities sum to more than 1, for every number of heads (loop invariant).
The spec tolerance eps = 1e-6 is independent of the code's 1e-9 / 1e-12: anything further than eps outside
the range MUST be rejected, anything inside [0,1] MUST be accepted, the gap is left to the implementation.
Bounded part: the pipeline (ConstraintAD.update_weights, extract_weights, the evaluators) on generated
programs.
"""
from pyvc.dsl import *

S = Spec("C30", "Invalid probability annotations are rejected")
S.cls("problog.evaluator:Semiring")
S.cls("problog.evaluator:SemiringProbability")
S.cls("problog.evaluator:SemiringLogProbability")
S.alias("P", "Ref[SemiringProbability]")
S.alias("L", "Ref[SemiringLogProbability]")
P = L = None
S.assume("A-float: floats as extended reals; the annotation has already been evaluated to a float (float(a))")
S.recfun("sumf", [("ws", "List[Float]"), ("k", "Int")], "Float",
         "0.0 if k <= 0 else sumf(ws, k - 1) + ws[k - 1]")
S.recfun("sumexp", [("ws", "List[Float]"), ("k", "Int")], "Float",
         "0.0 if k <= 0 else sumexp(ws, k - 1) + math.exp(ws[k - 1])")

OUT = "a < -1e-6 or a > 1.0 + 1e-6"

# ---- probability semiring
S.fn("problog.evaluator:SemiringProbability.value", types={"a": "Float"}, returns="Float",
     requires=["isfinite(a)"],
     raises={"InvalidValue": "not (0.0 <= a <= 1.0)"},       # may only raise for values outside [0,1]
     ensures=["not (%s)" % OUT, "result == a"])               # must raise for values beyond the tolerance
S.fn("problog.evaluator:SemiringProbability.in_domain", types={"a": "Float"}, returns="Bool",
     ensures=["implies(0.0 <= a <= 1.0, result)", "implies(%s, not result)" % OUT])
S.fn("problog.evaluator:Semiring.pos_value", types={"self": "P", "a": "Float", "key": "None"}, returns="Float",
     requires=["isfinite(a)"], raises={"InvalidValue": "not (0.0 <= a <= 1.0)"},
     ensures=["not (%s)" % OUT, "result == a"])
S.fn("problog.evaluator:Semiring.neg_value", types={"self": "P", "a": "Float", "key": "None"}, returns="Float",
     requires=["isfinite(a)"], raises={"InvalidValue": "not (0.0 <= a <= 1.0)"},
     ensures=["not (%s)" % OUT, "result == 1.0 - a"])
S.fn("problog.evaluator:Semiring.ad_complement",
     types={"self": "P", "ws": "List[Float]", "key": "None"}, returns="Float",
     requires=["forall(lambda i: implies(0 <= i < len(ws), 0.0 <= ws[i] <= 1.0))"],
     loops={0: loop(index="k", invariant=["s == sumf(ws, k)", "isfinite(s)", "s >= 0.0"])},
     ensures=["result == 1.0 - sumf(ws, len(ws))", "isfinite(result)", "result <= 1.0"])


def prob_ad_sum_rejected(s: P, ws: "List[Float]"):
    """The check ConstraintAD.update_weights performs: complement outside the domain <=> sum too large."""
    requires(forall(lambda i: implies(0 <= i < len(ws), 0.0 <= ws[i] <= 1.0)))
    c = s.ad_complement(ws, None)
    assert implies(sumf(ws, len(ws)) > 1.0 + 1e-6, not s.in_domain(c))
    assert implies(sumf(ws, len(ws)) <= 1.0, s.in_domain(c))


# ---- log-probability semiring
S.fn("problog.evaluator:SemiringLogProbability.value", types={"a": "Float"}, returns="Float",
     requires=["isfinite(a)"],
     raises={"InvalidValue": "not (0.0 <= a <= 1.0)"},
     ensures=["not (%s)" % OUT,
              "implies(a >= 1e-9, math.exp(result) == a)", "implies(a < 1e-9, math.exp(result) == 0.0)"])
S.fn("problog.evaluator:SemiringLogProbability.in_domain", types={"a": "Float"}, returns="Bool",
     ensures=["implies(a <= 0.0, result)", "implies(a > 1e-6, not result)"])
S.fn("problog.evaluator:SemiringLogProbability.negate", types={"a": "Float"}, returns="Float",
     raises={"InvalidValue": "a > 0.0"},
     ensures=["a <= 1e-6", "implies(a <= -1e-10, math.exp(result) == 1.0 - math.exp(a))", "result <= 0.0"])
S.fn("problog.evaluator:SemiringLogProbability.plus", types={"a": "Float", "b": "Float"}, returns="Float",
     requires=["a < float('inf')", "b < float('inf')"],
     ensures=["math.exp(result) == math.exp(a) + math.exp(b)", "result < float('inf')"])


def log_ad_sum_rejected2(s: L, w1: "Float", w2: "Float"):
    """Two-headed AD in log space: the complement negate(plus(w1, w2)) is rejected when the
    probabilities sum to more than 1 (plus a tolerance)."""
    requires(w1 <= 0.0 and w2 <= 0.0)
    requires(math.exp(w1) + math.exp(w2) > 1.0 + 1e-5)
    t = s.plus(w1, w2)
    assert t > 1e-6          # so negate(t) must raise InvalidValue (contract of negate)


S.lemma(prob_ad_sum_rejected, module="problog.evaluator")
S.lemma(log_ad_sum_rejected2, module="problog.evaluator")

S.unverified("ConstraintAD.update_weights / BaseFormula.extract_weights / evaluator propagate(): dictionaries of "
             "dynamically typed weights and Term construction with star-arguments are outside the verifier's subset; "
             "covered by the bounded pipeline stand-in (generated programs with probabilities inside, on and outside "
             "the range and AD sums around 1)")


def bounded(tier, seed):
    from bounded import c30
    return c30.run(tier, seed)
