"""C28 — Python and Prolog values convert losslessly.

Proof part: py2pl followed by pl2py on scalars (int, float, str — including strings containing quote
characters), with the real bodies of both functions; Constant's 15-decimal rounding of floats is a named
exclusion (known finding), stated as a precondition.
Bounded part: nested lists/tuples and problog_export through the engine.
"""
from pyvc.dsl import *

S = Spec("C28", "Python and Prolog values convert losslessly")
S.assume("A-term: Term/Constant construction builds the Term datatype; Constant(float) stores round(value, 15)")


def roundtrip_int(d: "Int"):
    assert pl2py(py2pl(d)) == d


def roundtrip_str(d: "Str"):
    # every string: empty, with double quotes, with single quotes, consisting of quotes only
    assert pl2py(py2pl(d)) == d


def roundtrip_float(d: "Float"):
    requires(isfinite(d))
    # named exclusion (known finding C28-float-precision): floats that Constant's round(value, 15) changes
    requires(round15(d) == d)
    assert pl2py(py2pl(d)) == d


def py2pl_shapes(i: "Int", s: "Str"):
    assert tk(py2pl(i)) == 3 and t_ci(py2pl(i)) == i
    assert tk(py2pl(s)) == 5 and t_cs(py2pl(s)) == '"' + s + '"'
    assert tk(py2pl([])) == 6 and t_functor(py2pl([])) == "[]" and t_arity(py2pl([])) == 0


def pl2py_string_constant(s: "Str"):
    """pl2py of a double-quoted string constant is exactly its content."""
    assert pl2py(Constant('"' + s + '"')) == s


for f in (roundtrip_int, roundtrip_str, roundtrip_float, py2pl_shapes, pl2py_string_constant):
    S.lemma(f, module="problog.pypl")

S.unverified("nested lists and tuples (recursion over heterogeneous Python containers) and problog_export's "
             "_convert_input/_convert_output: bounded stand-in on generated nested values and exported functions")


def bounded(tier, seed):
    from bounded import c28
    return c28.run(tier, seed)
