"""C09 — Cycle breaking and Clark's completion preserve the ground program's meaning (bounded stand-in only; see bounded/c09.py).

Run-time contract on the real transformation / top-level functions, evaluated over the bounded program family
(translation validation of each instance, or a metamorphic relation between two runs).  Never counted as proved.
"""
from pyvc.dsl import *

S = Spec("C09", "Cycle breaking and Clark's completion preserve the ground program's meaning")
LEVEL = "exploration"
S.unverified("everything: bounded run-time contract only")


def bounded(tier, seed):
    from bounded import c09
    return c09.run("C09", tier, seed)
