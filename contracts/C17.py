"""C17 — The parser is total and printing round-trips (bounded stand-in: bounded/c17.py).  The tokenizer functions
(_token_*) are candidates for progress/safety contracts on strings (DESIGN.md section 2, C17); not built yet."""
from pyvc.dsl import *

S = Spec("C17", "The parser is total and printing round-trips")
LEVEL = "exploration"
S.unverified("everything: bounded run-time contract only")


def bounded(tier, seed):
    from bounded import c17
    return c17.run("C17", tier, seed)
