"""C17 — The parser is total and printing round-trips.

Proof part (tokenizer helpers, problog/parser.py): the scanning helpers every token action is built from are proved
for ALL strings and positions: they return a position strictly after `pos` and at most len(s) (progress, so the
tokenizer's main loop terminates and never indexes outside the string), raise only the declared parse errors, and the
character classes are what the dispatch table assumes.  The token actions themselves, collapse/label_tokens/fold and
the factories are covered by the bounded stand-in (bounded/c17.py): totality on mutated program texts and the
print -> parse round trip on generated terms and clauses.
"""
from pyvc.dsl import *

S = Spec("C17", "The parser is total and printing round-trips")
LEVEL = "exploration"
S.assume("str.find(sub, start) is z3's str.indexof for start >= 0 (Python counts a negative start from the end: excluded by "
         "the preconditions pos >= 0)")

S.fn("problog.parser:skip_to", types={"s": "Str", "pos": "Int", "char": "Str"}, returns="Int",
     requires=["0 <= pos <= len(s)", "len(char) == 1"],
     ensures=["pos < result or result == len(s)", "pos <= result <= len(s)",
              # lands right behind the first occurrence of char at or after pos, or at the end of the string
              "implies(result <= len(s) and s.find(char, pos) != -1, result == s.find(char, pos) + 1)",
              "implies(s.find(char, pos) == -1, result == len(s))"])

S.fn("problog.parser:skip_comment_line", types={"s": "Str", "pos": "Int"}, returns="Int",
     requires=["0 <= pos <= len(s)"],
     ensures=["pos <= result <= len(s)", "pos < result or result == len(s)"])

S.fn("problog.parser:skip_comment_c", types={"s": "Str", "pos": "Int"}, returns="Int",
     requires=["0 <= pos <= len(s)"],
     raises={"UnmatchedCharacter": "s.find('*/', pos) == -1"},
     ensures=["pos + 2 <= result <= len(s)", "s.find('*/', pos) != -1", "result == s.find('*/', pos) + 2"])

S.fn("problog.parser:is_digit", types={"c": "Str"}, returns="Bool",
     requires=["len(c) == 1"],
     ensures=["result == (c == '0' or c == '1' or c == '2' or c == '3' or c == '4' or c == '5' or c == '6' or c == '7'"
              " or c == '8' or c == '9')"])

S.fn("problog.parser:is_comment_start", types={"c": "Str"}, returns="Bool",
     ensures=["result == (c == '%' or c == '/')"])

S.fn("problog.parser:is_whitespace", types={"c": "Str"}, returns="Bool",
     requires=["len(c) == 1"],
     ensures=["implies(c == ' ' or c == '\\n' or c == '\\t', result)", "implies(c == 'a' or c == '(' or c == '0', not result)"])

# ---- token actions without operator tables: progress and bounds for every string and position
S.cls("problog.parser:Token",
      fields={"string": "Str", "location": "Int", "atom": "Bool", "special": "Opt[Int]", "functor": "Bool",
              "arglist": "Bool", "aggregate": "Bool", "is_comma_list": "Bool",
              "binop": "None", "unop": "None", "atom_action": "None"})
S.cls("problog.parser:PrologParser", fields={})
S.alias("Tok", "Ref[Token]")
S.fn("problog.parser:Token.__init__",
     types={"string": "Str", "pos": "Int", "types": "None", "end": "None", "atom": "Bool", "functor": "Bool",
            "binop": "None", "unop": "None", "special": "Opt[Int]", "atom_action": "None"},
     modifies=["self.string", "self.location", "self.atom", "self.special", "self.functor", "self.arglist",
               "self.aggregate", "self.is_comma_list", "self.binop", "self.unop", "self.atom_action"],
     ensures=["self.string == string", "self.location == pos", "self.special == special", "self.atom == atom",
              "self.functor == (functor and atom)"],
     note="the operator fields binop/unop/atom_action (tuples holding factory callbacks) are outside the subset: "
          "calls that pass them are not under contract")

S.fn("problog.parser:PrologParser._next_paren_open", types={"s": "Str", "pos": "Int"}, returns="Bool",
     requires=["0 <= pos < len(s)"],
     ensures=["result == (pos + 1 < len(s) and (s[pos + 1] == '(' or s[pos + 1] == '['))"])

S.fn("problog.parser:PrologParser._skip", types={"s": "Str", "pos": "Int"}, returns="Tuple[None,Int]",
     requires=["0 <= pos < len(s)"], ensures=["result[1] == pos + 1"])

S.fn("problog.parser:PrologParser._token_percent", types={"s": "Str", "pos": "Int"}, returns="Tuple[None,Int]",
     requires=["0 <= pos < len(s)", "s[pos] == '%'"],
     ensures=["pos < result[1] <= len(s)"])

S.fn("problog.parser:PrologParser._token_dquot", types={"s": "Str", "pos": "Int"}, returns="Tuple[Tok,Int]",
     requires=["0 <= pos < len(s)", "s[pos] == '\"'"],
     raises={"UnmatchedCharacter": "True"},
     modifies=["Token.*"],
     loops={0: loop(invariant=["end == -1 or (pos < end < len(s) and s[end] == '\"')"],
                    decreases="len(s) - end if end != -1 else 0")},
     ensures=["pos + 1 < result[1] <= len(s)", "s[result[1] - 1] == '\"'",
              "result[0].string == s[pos:result[1]]", "result[0].location == pos", "result[0].special == 10"])

S.fn("problog.parser:PrologParser._token_squot", types={"s": "Str", "pos": "Int"}, returns="Tuple[Tok,Int]",
     requires=["0 <= pos < len(s)", "s[pos] == \"'\""],
     raises={"UnmatchedCharacter": "True"},
     modifies=["Token.*"],
     loops={0: loop(invariant=["end == -1 or (pos < end < len(s) and s[end] == \"'\")"],
                    decreases="len(s) - end if end != -1 else 0")},
     ensures=["pos + 1 < result[1] <= len(s)", "s[result[1] - 1] == \"'\"",
              "result[0].string == s[pos:result[1]]", "result[0].location == pos"])

S.fn("problog.parser:PrologParser._token_paren_open", types={"s": "Str", "pos": "Int"}, returns="Tuple[Tok,Int]",
     requires=["0 <= pos < len(s)"], modifies=["Token.*"],
     ensures=["result[1] == pos + 1", "result[0].special == 0", "not result[0].atom"])
S.fn("problog.parser:PrologParser._token_paren_close", types={"s": "Str", "pos": "Int"}, returns="Tuple[Tok,Int]",
     requires=["0 <= pos < len(s)"], modifies=["Token.*"],
     ensures=["result[1] == pos + 1", "result[0].special == 1", "not result[0].atom"])

# ---- the loop-free operator token actions: one uniform contract, for every string and position.
# The callbacks of the factory are only stored in the token (abstract values).
S.classes["PrologParser"].fields["factory"] = "Abs[Factory]"
S.abs_attrs = {"Factory": dict((a, "Cb") for a in ("build_binop", "build_unop", "build_conjunction", "build_disjunction",
                                                   "build_directive", "build_probabilistic", "build_not"))}
OP = "Opt[Tuple[Int,Str,Abs[Cb]]]"
for _f in ("binop", "unop"):
    S.classes["Token"].fields[_f] = OP
    S.fns["problog.parser:Token.__init__"].types[_f] = OP
NEXT_OPEN = "(result[1] < len(s) and (s[result[1]] == '(' or s[result[1]] == '['))"
# operators that can also be prefix operators keep the lookahead of the original code (directly after their first
# character): for them "name(" must stay an operator application, e.g. \+(a, b)
PREFIX_TOO = ("_token_plus", "_token_min", "_token_backslash", "_token_tilde", "_token_colon")
# tokens that are pure binary operators (the functional notation op(a,b) must be recognised for each of them)
BINARY = ("_token_pound", "_token_asterisk", "_token_slash", "_token_less", "_token_equal", "_token_greater", "_token_at",
          "_token_caret", "_token_ampersand")
DISPATCH = {"_token_pound": "#", "_token_asterisk": "*", "_token_plus": "+", "_token_comma": ",", "_token_min": "-",
            "_token_slash": "/", "_token_colon": ":", "_token_semicolon": ";", "_token_exclamation": "!", "_token_less": "<",
            "_token_equal": "=", "_token_greater": ">", "_token_question": "?", "_token_at": "@", "_token_bracket_open": "[",
            "_token_backslash": "\\\\", "_token_bracket_close": "]", "_token_caret": "^", "_token_pipe": "|",
            "_token_ampersand": "&", "_token_tilde": "~"}
for _name in sorted(DISPATCH):
    _ens = ["pos < result[1] <= len(s)",
            # the token is exactly the text it consumed, at its position
            "implies(result[0] is not None, result[0].string == s[pos:result[1]] and result[0].location == pos)"]
    if _name in BINARY:
        # used as a functor exactly when an opening parenthesis or bracket follows the WHOLE operator
        _ens.append("implies(result[0] is not None and result[0].atom, result[0].functor == %s)" % NEXT_OPEN)
    S.fn("problog.parser:PrologParser.%s" % _name, types={"s": "Str", "pos": "Int"}, returns="Tuple[Opt[Tok],Int]",
         requires=["0 <= pos < len(s)", "s[pos] == '%s'" % DISPATCH[_name]], modifies=["Token.*"],
         raises={"UnexpectedCharacter": "True", "UnmatchedCharacter": "True"},
         ensures=_ens)

S.fn("problog.parser:PrologParser._token_upper", types={"s": "Str", "pos": "Int"}, returns="Tuple[Tok,Int]",
     requires=["0 <= pos < len(s)"], modifies=["Token.*"],
     loops={0: loop(invariant=["pos + 1 <= end < s_len", "c == s[end]", "s_len == len(s)"], decreases="s_len - end")},
     ensures=["pos < result[1] <= len(s)", "result[0].string == s[pos:result[1]]", "result[0].location == pos",
              "result[0].special == 6"])

S.fn("problog.parser:PrologParser._token_notsupported", types={"s": "Str", "pos": "Int"}, returns="Tuple[None,Int]",
     requires=["0 <= pos < len(s)"], raises={"UnexpectedCharacter": "True"}, ensures=["False"])

# the number token is cut by a regular expression: its contract is ASSUMED (trusted), stated for the positions the
# dispatcher sends to it (a digit, or a dot followed by a digit)
S.fn("problog.parser:PrologParser._token_number", types={"s": "Str", "pos": "Int"}, returns="Tuple[Tok,Int]",
     requires=["0 <= pos < len(s)"], modifies=["Token.*"], trusted=True,
     ensures=["pos < result[1] <= len(s)", "result[0].string == s[pos:result[1]]", "result[0].location == pos"],
     note="RE_FLOAT.match(s, pos) returns a non-empty match at pos when s[pos] is a digit or a dot followed by a digit")

S.fn("problog.parser:PrologParser._token_dot", types={"s": "Str", "pos": "Int"}, returns="Tuple[Tok,Int]",
     requires=["0 <= pos < len(s)", "s[pos] == '.'"], modifies=["Token.*"],
     raises={"UnexpectedCharacter": "True"},
     ensures=["pos < result[1] <= len(s)", "result[0].string == s[pos:result[1]]", "result[0].location == pos",
              # a dot at the end of the text or before white space / a comment ends the statement
              "implies(pos + 1 == len(s), result[0].special == 2 and result[1] == pos + 1)"])

S.unverified("the token actions (_token_*), _tokenize, _extract_statements, collapse, label_tokens, fold, the factories and "
             "Term.__repr__: bounded stand-in only (bounded/c17.py)")


def bounded(tier, seed):
    from bounded import c17
    return c17.run("C17", tier, seed)
