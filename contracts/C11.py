"""C11 — The ground-program builder preserves Boolean meaning.

Proof part (key manipulation, problog/formula.py BaseFormula): is_true / is_false / is_probabilistic / negate are proved
for every key (None = FALSE, 0 = TRUE, +-n = literal of node n): negate is an involution and, under every valuation of
the nodes, the literal denoted by negate(k) is the complement of the literal denoted by k (lemma negate_is_complement) -
this is what every caller that builds `\\+x`, negative evidence or the negation of a compound relies on.
Bounded part (bounded/c11.py): builder call sequences against a truth-table model.  _add_compound / _add / _update /
add_disjunct work on namedtuple nodes with keyword construction, OrderedSet/set/map/filter pipelines and hash-consing
dictionaries keyed by tuples: outside the verifier's subset.
"""
from pyvc.dsl import *

S = Spec("C11", "The ground-program builder preserves Boolean meaning")
LEVEL = "exploration"
S.cls("problog.formula:BaseFormula")
S.alias("Key", "Opt[Int]")
S.alias("F", "Ref[BaseFormula]")
F = None
S.global_defs = dict(
    # the truth value a key denotes under a valuation v of the nodes
    LIT="lambda v, k: False if k is None else (True if unwrap(k) == 0 else"
        " (v[unwrap(k)] if unwrap(k) > 0 else not v[-unwrap(k)]))")

S.fn("problog.formula:BaseFormula.is_true", types={"key": "Key"}, returns="Bool",
     ensures=["result == (key is not None and unwrap(key) == 0)"])
S.fn("problog.formula:BaseFormula.is_false", types={"key": "Key"}, returns="Bool",
     ensures=["result == (key is None)"])
S.fn("problog.formula:BaseFormula.is_probabilistic", types={"key": "Key"}, returns="Bool",
     ensures=["result == (key is not None and unwrap(key) != 0)"])
S.fn("problog.formula:BaseFormula.negate", types={"key": "Key"}, returns="Key",
     ensures=["implies(key is None, result is not None and unwrap(result) == 0)",
              "implies(key is not None and unwrap(key) == 0, result is None)",
              "implies(key is not None and unwrap(key) != 0, result is not None and unwrap(result) == -unwrap(key))"])


def negate_is_complement(f: F, k: "Key", v: "Dict[Int,Bool]"):
    """Under every valuation, negate(k) denotes the complement of k; and negate is an involution."""
    requires(implies(k is not None and unwrap(k) != 0, (unwrap(k) if unwrap(k) > 0 else -unwrap(k)) in v))
    n = f.negate(k)
    assert LIT(v, n) == (not LIT(v, k))
    assert f.negate(n) == k


def probabilistic_keys_are_literals(f: F, k: "Key"):
    assert f.is_probabilistic(k) == (not f.is_true(k) and not f.is_false(k))
    assert implies(f.is_probabilistic(k), f.is_probabilistic(f.negate(k)))


S.lemma(negate_is_complement, module="problog.formula")
S.lemma(probabilistic_keys_are_literals, module="problog.formula")

S.unverified("_add_compound, _add, _update, add_atom, add_and, add_or, add_disjunct, add_name: bounded stand-in only "
             "(bounded/c11.py)")


def bounded(tier, seed):
    from bounded import c11
    return c11.run("C11", tier, seed)
