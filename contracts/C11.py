"""C11 — The ground-program builder preserves Boolean meaning (bounded stand-in only; see bounded/c11.py).

Run-time contract on the real functions evaluated over a bounded input family against an independent
reference (symbolic truth-table model / Robinson unifier / equivalence laws).  Never counted as proved.
"""
from pyvc.dsl import *

S = Spec("C11", "The ground-program builder preserves Boolean meaning")
LEVEL = "exploration"
S.unverified("everything: bounded run-time contract only")


def bounded(tier, seed):
    from bounded import c11
    return c11.run("C11", tier, seed)
