"""C33 — The soft-cut library picks the lowest-indexed applicable rule (bounded stand-in: bounded/c33.py).
library(cut) is Prolog text (cut.pl) over all/3, clause/2 and sort/2: no Python function of its own to put under
a deductive contract; the comparator behind sort/2 is proved under C15."""
from pyvc.dsl import *

S = Spec("C33", "The soft-cut library picks the lowest-indexed applicable rule")
LEVEL = "exploration"
S.unverified("everything: bounded run-time contract only (the library is Prolog text; struct_cmp behind sort/2 is proved "
             "under C15)")


def bounded(tier, seed):
    from bounded import c33
    return c33.run("C33", tier, seed)
