"""C19 — findall/all in probabilistic programs follow the possible-world semantics (bounded stand-in: bounded/c19.py)."""
from pyvc.dsl import *

S = Spec("C19", "findall/all in probabilistic programs follow the possible-world semantics")
LEVEL = "exploration"
S.unverified("everything: bounded run-time contract only")


def bounded(tier, seed):
    from bounded import c19
    return c19.run("C19", tier, seed)
