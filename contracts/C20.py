"""C20 — MPE returns a most probable world consistent with the evidence (bounded stand-in: bounded/c20.py; the laws of
the MPE-state semiring are proved under C12)."""
from pyvc.dsl import *

S = Spec("C20", "MPE returns a most probable world consistent with the evidence")
LEVEL = "exploration"
S.unverified("everything: bounded run-time contract only")


def bounded(tier, seed):
    from bounded import c20
    return c20.run("C20", tier, seed)
