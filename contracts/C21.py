"""C21 — DT-ProbLog and MAP return optimal strategies (bounded stand-in: bounded/c21.py; the search procedures
search_exhaustive / evaluate / num2bits are additionally put under deductive contract where the verifier reaches)."""
from pyvc.dsl import *

S = Spec("C21", "DT-ProbLog and MAP return optimal strategies")
LEVEL = "exploration"
S.unverified("everything: bounded run-time contract only")


def bounded(tier, seed):
    from bounded import c21
    return c21.run("C21", tier, seed)
