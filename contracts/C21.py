"""C21 — DT-ProbLog and MAP return optimal strategies.

Proof part: num2bits (the enumeration of strategies in search_exhaustive) is proved to return, for every n and nbits,
the nbits-bit binary representation of n mod 2^nbits, most significant bit first - so that the loop over
range(0, 1 << len(decisions)) visits every strategy exactly once (two different numbers below 2^nbits differ in a bit).
Bounded part (bounded/c21.py): dtproblog(search=exhaustive|local) and the map task against brute-force expected
utility.  search_exhaustive / search_local / evaluate work on dictionaries keyed by terms and on the evaluator: outside
the verifier's subset.
"""
from pyvc.dsl import *

S = Spec("C21", "DT-ProbLog and MAP return optimal strategies")
LEVEL = "exploration"
# shr(n, j) = n with its j lowest binary digits removed (floor(n / 2^j)); digit j of n is shr(n, j) % 2
S.recfun("shr", [("n", "Int"), ("j", "Int")], "Int", "n if j <= 0 else shr(n, j - 1) // 2")

S.fn("problog.tasks.dtproblog:num2bits", types={"n": "Int", "nbits": "Int"}, returns="List[Bool]",
     requires=["n >= 0", "nbits >= 0"],
     loops={0: loop(index="k",
                    invariant=["len(bits) == nbits", "n == shr(old(n), k)",
                               "forall(lambda j: implies(0 <= j < k, bits[nbits - 1 - j] == (shr(old(n), j) % 2 == 1)))"])},
     ensures=["len(result) == nbits",
              # most significant bit first: position nbits-1-j holds binary digit j of n
              "forall(lambda j: implies(0 <= j < nbits, result[nbits - 1 - j] == (shr(old(n), j) % 2 == 1)))"])

S.unverified("search_exhaustive, search_local, evaluate, dtproblog, the map task: dictionaries keyed by Term objects, "
             "zip/dict construction and the evaluator are outside the verifier's subset - bounded stand-in (bounded/c21.py)")


def bounded(tier, seed):
    from bounded import c21
    return c21.run("C21", tier, seed)
