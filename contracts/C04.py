"""C04 — Documented arbitrary-order (unbuffered) evaluation agrees with default (bounded stand-in only).

No pre/post-condition on a single function of the engine decides this property; the contract is metamorphic: a
run-time post-condition on the top-level inference function relating two runs of the real system (reference run vs
transformed run), evaluated on the bounded program family (bounded/meta.py).  Never counted as proved.
"""
from pyvc.dsl import *

S = Spec("C04", "Documented arbitrary-order (unbuffered) evaluation agrees with default")
LEVEL = "exploration"
S.unverified("everything: bounded metamorphic run-time contract on the top-level inference function only")


def bounded(tier, seed):
    from bounded import meta
    return meta.run("C04", tier, seed)
