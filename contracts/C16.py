"""C16 — arithmetic and term-inspection builtins match Yap/SWI semantics.

Proof part: every lambda of problog.logic._arithmetic_functions is extracted by its key and verified
against the value Prolog prescribes (ISO / SWI-7 / Yap-6 reading, written before looking at the code:
DESIGN.md Appendix B) on integer and on float arguments.  Powers and bit operators are shared
uninterpreted symbols (Python's and Prolog's definitions coincide), so those entries prove "right
function, right argument order" plus Python-specific hazards (complex results, exceptions).
Bounded part: non-lambda entries (bindings), compute_function's exception contract, is/2 and the
term-inspection builtins through the real engine.
"""
from pyvc.dsl import *

S = Spec("C16", "Arithmetic and term-inspection builtins match Yap/SWI semantics")
S.float_overflow = True
S.assume("A-float: floats as extended reals (rounding ignored); no Prolog system is installed: the oracle is my "
         "reading of ISO/SWI/Yap (DESIGN.md Appendix B), a stated trusted base")
M = "problog.logic"
T = "_arithmetic_functions"


def entry(key, tag, types, **kw):
    f = S.table_fn(M, T, key, types=types, **kw)
    del S.fns[f.qual]
    f.qual = f.qual + "@" + tag
    f.module, f.path = f.qual.split(":")
    S.fns[f.qual] = f
    return f


II = {"a": "Int", "b": "Int"}
FF = {"a": "Float", "b": "Float"}
FIN2 = ["isfinite(a)", "isfinite(b)"]

# ---- + - * on ints (exact) and floats (real arithmetic)
for op in "+-*":
    entry((op, 2), "ii", II, returns="Int", strict_return=True, ensures=["result == a %s b" % op])
    entry((op, 2), "ff", FF, returns="Float", strict_return=True, requires=FIN2, ensures=["result == a %s b" % op])
    entry((op, 2), "if", {"a": "Int", "b": "Float"}, returns="Float", strict_return=True, requires=["isfinite(b)"],
          ensures=["result == real(a) %s b" % op])
# ---- / : numerically the quotient; division by zero must surface as an error
entry(("/", 2), "ii", II, returns="Float", raises={"ZeroDivisionError": "b == 0"},
      ensures=["b != 0", "result * real(b) == real(a)"])
entry(("/", 2), "ff", FF, returns="Float", requires=FIN2, raises={"ZeroDivisionError": "b == 0.0"},
      ensures=["b != 0.0", "result * b == a"])
# ---- // : ISO integer division truncates toward zero
entry(("//", 2), "ii", II, returns="Int", strict_return=True, raises={"ZeroDivisionError": "b == 0"},
      ensures=["b != 0",
               # |result * b| <= |a| < |result * b| + |b| and the sign of an inexact quotient follows a/b
               "result == (a // b if (a - (a // b) * b == 0 or (a < 0) == (b < 0)) else a // b + 1)"])
# ---- mod (sign of the divisor), rem (documented: same as mod), div (floor)
for name in ("mod", "rem"):
    entry((name, 2), "ii", II, returns="Int", strict_return=True, raises={"ZeroDivisionError": "b == 0"},
          ensures=["b != 0", "exists(lambda q: result == a - q * b)",
                   "implies(b > 0, 0 <= result < b)", "implies(b < 0, b < result <= 0)"])
entry(("div", 2), "ii", II, returns="Int", strict_return=True, raises={"ZeroDivisionError": "b == 0"},
      ensures=["b != 0", "implies(b > 0, result * b <= a < (result + 1) * b)",
               "implies(b < 0, result * b >= a > (result + 1) * b)"])
# ---- powers
for name in ("**", "^"):
    entry((name, 2), "ii", II, returns="Int", requires=["b >= 0"], strict_return=True, ensures=["result == a ** b"])
    # float base: a negative base with a non-integral exponent has no real value: must not return one
    entry((name, 2), "ff", FF, returns="Float", requires=FIN2,
          raises={"ZeroDivisionError": "a == 0.0 and b < 0.0", "OverflowError": "True",
                  "ValueError": "a < 0.0 and real(int(b)) != b"},       # non-integral exponent
          ensures=["result == a ** b", "not (a < 0.0 and real(int(b)) != b)"])
# ---- unary
entry(("+", 1), "i", {"a": "Int"}, returns="Int", strict_return=True, ensures=["result == a"])
entry(("-", 1), "i", {"a": "Int"}, returns="Int", strict_return=True, ensures=["result == 0 - a"])
entry(("-", 1), "f", {"a": "Float"}, returns="Float", strict_return=True, requires=["isfinite(a)"],
      ensures=["result == 0.0 - a"])
entry(("\\", 1), "i", {"a": "Int"}, returns="Int", strict_return=True, ensures=["result == 0 - a - 1"])
# ---- bit operators on naturals: shared symbols
for name, op in (("/\\", "&"), ("\\/", "|"), ("xor", "^"), ("#", "^"), ("><", "^"), ("<<", "<<"), (">>", ">>")):
    entry((name, 2), "ii", II, returns="Int", requires=["a >= 0", "b >= 0"], strict_return=True,
          ensures=["result == a %s b" % op])
# ---- rounding family (float -> integer)
F1 = {"x": "Float"}
entry(("ceiling", 1), "f", F1, returns="Int", strict_return=True, requires=["isfinite(x)"],
      ensures=["real(result) >= x", "real(result) - 1.0 < x"])
entry(("floor", 1), "f", F1, returns="Int", strict_return=True, requires=["isfinite(x)"],
      ensures=["real(result) <= x", "x < real(result) + 1.0"])
entry(("truncate", 1), "f", F1, returns="Int", strict_return=True, requires=["isfinite(x)"],
      ensures=["implies(x >= 0.0, real(result) <= x and x < real(result) + 1.0)",
               "implies(x < 0.0, real(result) >= x and x > real(result) - 1.0)"])
entry(("round", 1), "f", F1, returns="Int", strict_return=True, requires=["isfinite(x)"],
      # nearest integer, halves away from zero
      ensures=["implies(x >= 0.0, real(result) <= x + 0.5 and x + 0.5 < real(result) + 1.0)",
               "implies(x < 0.0, real(result) >= x - 0.5 and x - 0.5 > real(result) - 1.0)"])
entry(("float_integer_part", 1), "f", {"f": "Float"}, returns="Float", strict_return=True, requires=["isfinite(f)"],
      ensures=["implies(f >= 0.0, result <= f and f < result + 1.0)",
               "implies(f < 0.0, result >= f and f > result - 1.0)",
               "exists(lambda k: result == real(k))"])
entry(("float_fractional_part", 1), "f", {"f": "Float"}, returns="Float", strict_return=True,
      requires=["isfinite(f)"],
      ensures=["implies(f >= 0.0, 0.0 <= result and result < 1.0)", "implies(f < 0.0, -1.0 < result and result <= 0.0)",
               "exists(lambda k: f - result == real(k))"])
entry(("sign", 1), "i", {"x": "Int"}, returns="Int", strict_return=True,
      ensures=["result == (1 if x > 0 else (-1 if x < 0 else 0))"])
entry(("sign", 1), "f", {"x": "Float"}, returns="Int",
      ensures=["result == (1 if x > 0.0 else (-1 if x < 0.0 else 0))"])
# ---- constants
entry(("inf", 0), "c", {}, returns="Float", ensures=["result == float('inf')"])
entry(("pi", 0), "c", {}, returns="Float", ensures=["result == math.pi"])
entry(("e", 0), "c", {}, returns="Float", ensures=["result == math.e"])

def bounded(tier, seed):
    from bounded import c16
    return c16.run(tier, seed)


S.unverified("transcendental table entries (math.* bindings), min/max/abs/integer/float bindings: checked by "
             "identity with the C-library function (exhaustive over the finite table) in the bounded part")
S.unverified("compute_function (table lookup, *values call), is/2, comparison builtins, between/succ/plus/length/"
             "functor/arg/=../type tests: run-time contracts through the real engine (bounded stand-in)")
