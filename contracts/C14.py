"""C14 — Unification is sound and complete syntactic unification (bounded stand-in only; see bounded/c14.py).

Run-time contract on the real functions evaluated over a bounded input family against an independent
reference (symbolic truth-table model / Robinson unifier / equivalence laws).  Never counted as proved.
"""
from pyvc.dsl import *

S = Spec("C14", "Unification is sound and complete syntactic unification")
LEVEL = "exploration"
S.unverified("everything: bounded run-time contract only")


def bounded(tier, seed):
    from bounded import c14
    return c14.run("C14", tier, seed)
