"""C14 — Unification is sound and complete syntactic unification.

Proof part (the two builtins, problog/engine_builtin.py): `=/2` and `\\=/2` are total functions of the outcome of ONE
call unify_value(arg1, arg2, {}) - `=` answers exactly when it returns (with the unifier's instance on both sides), `\\=`
succeeds exactly when it raises UnifyError, and nothing else escapes - so `X \\= Y` succeeds exactly when `X = Y` fails,
for all terms.  unify_value itself is an ASSUMED contract here (a deterministic partial function of its two arguments:
the uninterpreted predicate `unifiable` and function `mgu_inst`); that it computes a most general unifier is the subject
of the bounded stand-in (bounded/c14.py: reference Robinson unifier, all pairs of a core term set, clause-head
matching).
"""
from pyvc.dsl import *

S = Spec("C14", "Unification is sound and complete syntactic unification")
LEVEL = "exploration"
# uninterpreted symbols (the defining equations are trivial)
S.recfun("unifiable", [("a", "Term"), ("b", "Term")], "Bool", "unifiable(a, b)")
S.recfun("mgu_inst", [("a", "Term"), ("b", "Term")], "Term", "mgu_inst(a, b)")
S.assume("unify_value(a, b, {}) is a deterministic partial function of (a, b): it raises UnifyError (or its subclass "
         "OccursCheck) exactly when the uninterpreted predicate unifiable(a, b) is false, and otherwise returns "
         "mgu_inst(a, b); checked against a reference unifier only by the bounded stand-in")

S.fn("problog.engine_unify:unify_value", types={"value1": "Term", "value2": "Term", "source_values": "Dict[Int,Term]"},
     returns="Term", trusted=True,
     raises={"UnifyError": "not unifiable(value1, value2)"},
     ensures=["unifiable(value1, value2)", "result == mgu_inst(value1, value2)"])

S.fn("problog.engine_builtin:_builtin_eq", types={"arg1": "Term", "arg2": "Term"}, returns="List[Tuple[Term,Term]]",
     ensures=["implies(unifiable(arg1, arg2), len(result) == 1 and result[0][0] == mgu_inst(arg1, arg2)"
              " and result[0][1] == mgu_inst(arg1, arg2))",
              "implies(not unifiable(arg1, arg2), len(result) == 0)"])

S.fn("problog.engine_builtin:_builtin_neq", types={"arg1": "Term", "arg2": "Term"}, returns="Bool",
     ensures=["result == (not unifiable(arg1, arg2))"])


def neq_is_the_complement_of_eq(a: "Term", b: "Term"):
    """X \\= Y succeeds exactly when X = Y has no answer."""
    assert _builtin_neq(a, b) == (len(_builtin_eq(a, b)) == 0)


S.lemma(neq_is_the_complement_of_eq, module="problog.engine_builtin")

S.unverified("unify_value, unify_value_dc, unify_call_head, unify_call_return, substitute_*: bounded stand-in only "
             "(mutable triangular substitutions over integer-coded variables)")


def bounded(tier, seed):
    from bounded import c14
    return c14.run("C14", tier, seed)
